/* libxcm/tp/ux/xcm_tp_ux.c (real): data path steps over KERNEL-SEQPACKET and
 * lifecycle ladders (connect / server / accept, then close or cleanup) with
 * every resource-creating system call failing at the solver's choice, over a
 * KERNEL-FD ghost table.  Serves C01 C03 C04 C05 C08 C10 C16 C17.
 *
 *  -DOP_SEND | OP_RECV | OP_UPDATE | OP_LIFE_SERVER | OP_LIFE_CONNECT | OP_LIFE_ACCEPT | OP_ADDR
 *  -DUXF   the uxf (file system) flavour instead of ux (abstract)
 */
#include "stubs.h"
#include <errno.h>
#include <string.h>
#include <sys/epoll.h>
#include <sys/socket.h>
#include <linux/un.h>

/* ---- KERNEL-FD ghost table -------------------------------------------------- */
#define FD0 5
#define NFD 3
static bool g_open[NFD]; static int g_opened, g_close_calls[NFD]; static bool g_nonblock[NFD], g_bound[NFD], g_listening[NFD], g_connected[NFD];
static bool g_stray_close;
static int g_next_fd;
static int g_unlink_calls; static bool g_file_exists;     /* the UXF socket file */
static int g_reg_add, g_reg_del, g_reg_fd = -1, g_reg_mod_calls, g_reg_mod_event = -1;
#define FD_REG 3
static int nd_errno(void) { static const int e[] = { EMFILE, ENFILE, ENOMEM, EACCES, EADDRINUSE, ECONNREFUSED, ENOENT, EAGAIN }; return e[nd_range(0, 7)]; }
static int new_fd(bool nonblock) { int fd = FD0 + g_next_fd; CHECK(g_next_fd < NFD, "harness: fd table"); g_open[g_next_fd] = true; g_nonblock[g_next_fd] = nonblock; g_next_fd++; g_opened++; return fd; }
static bool fd_valid(int fd) { return fd >= FD0 && fd < FD0 + NFD && g_open[fd - FD0]; }

int socket(int domain, int type, int protocol)
{
    CHECK(domain == AF_UNIX && (type & ~(SOCK_NONBLOCK | SOCK_CLOEXEC)) == SOCK_SEQPACKET && protocol == 0, "C01: UX transports use AF_UNIX SOCK_SEQPACKET sockets");
    CHECK(type & SOCK_NONBLOCK, "C05: every descriptor is created non-blocking");
    if (nd_bool()) { errno = nd_errno(); return -1; }
    return new_fd(true);
}
int setsockopt(int fd, int level, int optname, const void *optval, socklen_t optlen)
{ (void)level; (void)optname; (void)optval; (void)optlen; CHECK(fd_valid(fd), "C08: setsockopt on a live descriptor of this socket"); if (nd_bool()) { errno = nd_errno(); return -1; } return 0; }
int bind(int fd, const struct sockaddr *a, socklen_t l)
{ (void)a; (void)l; CHECK(fd_valid(fd), "C08: bind on a live descriptor of this socket"); if (nd_bool()) { errno = nd_errno(); return -1; } g_bound[fd - FD0] = true;
#ifdef UXF
  g_file_exists = true;
#endif
  return 0; }
int listen(int fd, int backlog)
{ (void)backlog; CHECK(fd_valid(fd) && g_bound[fd - FD0], "C08: listen on the bound descriptor"); if (nd_bool()) { errno = nd_errno(); return -1; } g_listening[fd - FD0] = true; return 0; }
int connect(int fd, const struct sockaddr *a, socklen_t l)
{ (void)a; (void)l; CHECK(fd_valid(fd), "C08: connect on a live descriptor of this socket"); CHECK(g_nonblock[fd - FD0], "C05: connect() on a non-blocking descriptor"); if (nd_bool()) { errno = nd_errno(); return -1; } g_connected[fd - FD0] = true; return 0; }
int ut_accept(int fd, struct sockaddr *a, socklen_t *l, unsigned flags)
{ (void)a; (void)l; CHECK(fd_valid(fd) && g_listening[fd - FD0], "C08: accept on the listening descriptor"); CHECK(flags & SOCK_NONBLOCK, "C05: accepted descriptors are non-blocking"); if (nd_bool()) { errno = nd_errno(); return -1; } return new_fd(true); }
void ut_close(int fd)
{
    if (!fd_valid(fd)) { g_stray_close = true; CHECK(0, "C08: the library never closes a descriptor it did not create, and closes each of its own once"); return; }
    g_open[fd - FD0] = false; g_close_calls[fd - FD0]++;
}
void ut_close_if_valid(int fd) { if (fd >= 0) ut_close(fd); }
int unlink(const char *path) { (void)path; g_unlink_calls++; CHECK(g_file_exists, "C08: only a socket file this socket created is unlinked"); g_file_exists = false; return 0; }

int xpoll_get_fd(struct xpoll *x) { (void)x; return 9; }
int xpoll_fd_reg_add(struct xpoll *x, int fd, int event) { (void)x; (void)event; CHECK(fd_valid(fd), "C04: only live descriptors are registered"); g_reg_add++; g_reg_fd = fd; return FD_REG; }
void xpoll_fd_reg_mod(struct xpoll *x, int reg_id, int event) { (void)x; CHECK(reg_id == FD_REG, "C04: registration modified through its own id"); g_reg_mod_calls++; g_reg_mod_event = event; }
void xpoll_fd_reg_del(struct xpoll *x, int reg_id) { (void)x; (void)reg_id; g_reg_del++; }
void xpoll_fd_reg_del_if_valid(struct xpoll *x, int reg_id) { (void)x; if (reg_id >= 0) g_reg_del++; }

/* address helpers (real ones are C12's) */
static bool g_parse_ok; static char g_name[4];
static int parse_stub(const char *a, char *name, size_t cap) { (void)a; if (!g_parse_ok) { errno = EINVAL; return -1; } CHECK(cap > 3, "harness"); name[0] = g_name[0]; name[1] = g_name[0] ? g_name[1] : 0; name[2] = 0; return 0; }
int xcm_addr_parse_ux(const char *a, char *n, size_t c) { return parse_stub(a, n, c); }
int xcm_addr_parse_uxf(const char *a, char *n, size_t c) { return parse_stub(a, n, c); }
static size_t g_make_name_len;
int xcm_addr_make_ux(const char *name, char *a, size_t cap) { g_make_name_len = strlen(name); if (cap > 3) { a[0] = 'u'; a[1] = 0; } return 0; }
int xcm_addr_make_uxf(const char *name, char *a, size_t cap) { g_make_name_len = strlen(name); if (cap > 3) { a[0] = 'u'; a[1] = 0; } return 0; }
void xcm_tp_register(const char *n, const struct xcm_tp_ops *o);

/* KERNEL-SEQPACKET */
static int g_send_calls, g_recv_calls; static const void *g_app_buf; static size_t g_app_len; static int g_sys_rc, g_sys_errno;
static size_t g_record_len;   /* real length of the record at the head of the queue */
ssize_t send(int fd, const void *buf, size_t len, int flags)
{
    g_send_calls++;
    CHECK(fd == FD0, "C01: send() on the connection's own descriptor");
    CHECK(buf == g_app_buf && len == g_app_len, "C01,C03: one send() with the caller's buffer and length");
    CHECK((flags & MSG_EOR) && (flags & MSG_NOSIGNAL), "C01: each message is one record (MSG_EOR), no SIGPIPE");
    if (nd_bool()) { g_sys_rc = (int)len; return (ssize_t)len; }     /* SEQPACKET: all or nothing */
    g_sys_rc = -1; g_sys_errno = nd_bool() ? EAGAIN : (nd_bool() ? EPIPE : ECONNRESET); errno = g_sys_errno; return -1;
}
ssize_t recv(int fd, void *buf, size_t len, int flags)
{
    g_recv_calls++;
    CHECK(fd == FD0, "C01: recv() on the connection's own descriptor");
    CHECK(buf == g_app_buf && len == g_app_len, "C01: one recv() with the caller's buffer and capacity");
    CHECK((flags & MSG_TRUNC) != 0 && (flags & (MSG_PEEK | MSG_OOB | MSG_WAITALL)) == 0, "C01: recv with MSG_TRUNC (one whole record per call, its real length reported)");
    int mode = (int)nd_range(0, 2);
    if (mode == 0) { g_record_len = (size_t)nd_range(1, 65535); g_sys_rc = (int)g_record_len; return g_sys_rc; }   /* real record length, may exceed len */
    if (mode == 1) { g_sys_rc = 0; return 0; }
    g_sys_rc = -1; g_sys_errno = nd_bool() ? EAGAIN : ECONNRESET; errno = g_sys_errno; return -1;
}
/* getsockname/getpeername on AF_UNIX: any addrlen 2..110 with arbitrary bytes */
static int sockname_stub(int fd, struct sockaddr *a, socklen_t *l)
{
    CHECK(fd_valid(fd), "C08: name asked of a live descriptor");
    if (nd_bool()) { errno = ENOTCONN; return -1; }
    socklen_t n = (socklen_t)nd_range(2, sizeof(struct sockaddr_un));
    struct sockaddr_un *u = (struct sockaddr_un *)a;
    u->sun_family = AF_UNIX;
    /* sun_path holds n-2 arbitrary non-NUL bytes (a pathname is followed by its NUL when there is room) */
    for (size_t i = 0; i < sizeof(u->sun_path); i++) u->sun_path[i] = (i + 2 < n) ? (char)nd_range(1, 127) : (char)nd_u8();
    *l = n;
    return 0;
}
int getsockname(int fd, struct sockaddr *a, socklen_t *l) { return sockname_stub(fd, a, l); }
int getpeername(int fd, struct sockaddr *a, socklen_t *l) { return sockname_stub(fd, a, l); }

#include "xcm_tp_ux.c"

static struct { struct xcm_socket s; struct ux_socket priv; } sock, sock2;
#define S (&sock.s)
#define US (&sock.priv)
#ifdef UXF
#define OPS uxf_ops
#else
#define OPS ux_ops
#endif
static struct xcm_tp_proto proto = { "ux", &OPS };
static int64_t pre_cnts[8];
static char appbuf[8];

static void setup_conn(void)
{
    CHECK((char *)US == (char *)S + sizeof(struct xcm_socket), "harness: private area follows struct xcm_socket");
    S->proto = &proto; S->type = xcm_socket_type_conn; S->xpoll = (struct xpoll *)&sock; S->condition = (int)nd_range(0, 3);
    US->fd = new_fd(true); US->fd_reg_id = FD_REG;
    for (int i = 0; i < 8; i++) { US->cnts[i] = (int64_t)nd_range(0, 1LL << 60); pre_cnts[i] = US->cnts[i]; }
}
static void check_cnt(int idx, int64_t delta, const char *what) { (void)what; CHECK(US->cnts[idx] == pre_cnts[idx] + delta, "C17: counter moves by exactly the data of this call"); }

#ifdef OP_SEND
int main(void)
{
    setup_conn();
    g_app_buf = appbuf; g_app_len = nd_size();
    errno = 0; int rc = ux_send(S, appbuf, g_app_len); int e = errno;
    CHECK(rc == 0 || rc == -1, "C01: messaging send returns 0 or -1");
    bool accepted = false;
    if (g_app_len == 0) { CHECK(rc == -1 && e == EINVAL && g_send_calls == 0, "C03: zero-length message refused with EINVAL before any system call"); }
    else if (g_app_len > 65535) { CHECK(rc == -1 && e == EMSGSIZE && g_send_calls == 0, "C03: oversized message refused with EMSGSIZE before any system call"); }
    else {
	CHECK(g_send_calls == 1, "C01: exactly one send() per message");
	accepted = g_sys_rc >= 0;
	CHECK((rc == 0) == accepted, "C03: success <=> the kernel took the whole record");
	if (rc == -1) CHECK(e == g_sys_errno, "C06: a failed send reports the kernel's errno");
	WITNESS(rc == -1 && e == EAGAIN, "back-pressure: EAGAIN");
    }
    int64_t m = accepted ? 1 : 0, b = accepted ? (int64_t)g_app_len : 0;
    check_cnt(xcm_tp_cnt_from_app_msgs, m, ""); check_cnt(xcm_tp_cnt_from_app_bytes, b, "");
    check_cnt(xcm_tp_cnt_to_lower_msgs, m, ""); check_cnt(xcm_tp_cnt_to_lower_bytes, b, "");
    check_cnt(xcm_tp_cnt_to_app_msgs, 0, ""); check_cnt(xcm_tp_cnt_from_lower_msgs, 0, "");
    if (!accepted) for (int i = 0; i < 8; i++) CHECK(US->cnts[i] == pre_cnts[i], "C03,C17: a refused send (EAGAIN, EMSGSIZE, EINVAL) counts nothing");
    CHECK(g_recv_calls == 0 && US->fd == FD0, "C03: send leaves the rest of the socket state alone");
    return 0;
}
#endif

#ifdef OP_RECV
int main(void)
{
    setup_conn();
    g_app_buf = appbuf; g_app_len = (size_t)nd_range(1, 70000);
    errno = 0; int rc = ux_receive(S, appbuf, g_app_len); int e = errno;
    CHECK(g_recv_calls == 1 && g_send_calls == 0, "C01: exactly one recv() per receive");
    if (g_sys_rc > 0) {
	size_t want = g_record_len < g_app_len ? g_record_len : g_app_len;
	CHECK(rc > 0 && (size_t)rc == want, "C01: receive returns min(message length, capacity)");
	check_cnt(xcm_tp_cnt_to_app_msgs, 1, ""); check_cnt(xcm_tp_cnt_from_lower_msgs, 1, "");
	CHECK(US->cnts[xcm_tp_cnt_to_app_bytes] == pre_cnts[xcm_tp_cnt_to_app_bytes] + (int64_t)want, "C17: to_app_bytes counts the bytes really delivered (also under truncation)");
	CHECK(US->cnts[xcm_tp_cnt_from_lower_bytes] == pre_cnts[xcm_tp_cnt_from_lower_bytes] + (int64_t)g_record_len, "C17: from_lower_bytes counts the message as it arrived");
	WITNESS(g_record_len > g_app_len, "truncated delivery");
    } else {
	CHECK(rc == g_sys_rc, "C06: EOF (0) and errors (-1) are passed through");
	if (rc == -1) CHECK(e == g_sys_errno, "C06: the kernel's errno is reported");
	for (int i = 0; i < 8; i++) CHECK(US->cnts[i] == pre_cnts[i], "C17: nothing delivered, nothing counted");
    }
    check_cnt(xcm_tp_cnt_from_app_msgs, 0, ""); check_cnt(xcm_tp_cnt_to_lower_bytes, 0, "");
    return 0;
}
#endif

#ifdef OP_UPDATE
int main(void)
{
    setup_conn();
    bool server = nd_bool();
    if (server) { S->type = xcm_socket_type_server; S->condition = nd_bool() ? XCM_SO_ACCEPTABLE : 0; }
    ux_update(S);
    int want = server ? ((S->condition & XCM_SO_ACCEPTABLE) ? EPOLLIN : 0)
	: (((S->condition & XCM_SO_RECEIVABLE) ? EPOLLIN : 0) | ((S->condition & XCM_SO_SENDABLE) ? EPOLLOUT : 0));
    CHECK(g_reg_mod_calls == 1 && (g_reg_mod_event & want) == want, "C04: the descriptor is watched for everything awaited");
    CHECK((g_reg_mod_event & ~want) == 0, "C16: and for nothing else (quiet when idle)");
    CHECK(ux_finish(S) == 0, "C04: UX sockets have no outstanding work");
    CHECK(g_send_calls + g_recv_calls == 0, "C16: update performs no I/O");
    WITNESS(!server && S->condition == 0, "idle connection: mask 0");
    return 0;
}
#endif

/* ---- lifecycle ------------------------------------------------------------- */
static void check_all_released(bool owner_close)
{
    for (int i = 0; i < NFD; i++) if (i < g_next_fd) {
	CHECK(!g_open[i], "C08: every descriptor the socket opened is closed again");
	CHECK(g_close_calls[i] == 1, "C08: ... exactly once");
    }
    if (owner_close) {
	CHECK(g_reg_del == g_reg_add, "C08: every xpoll registration is deleted");
	CHECK(!g_file_exists, "C08: the UXF socket file is gone");
    }
}
static void life_init(struct xcm_socket *s, struct ux_socket *us, enum xcm_socket_type t)
{
    s->proto = &proto; s->type = t; s->xpoll = (struct xpoll *)&sock;
    memset(us, 0, sizeof(*us));      /* xcm_tp_socket_create zeroes the private area */
    ux_init(s, NULL);
    g_parse_ok = nd_bool(); g_name[0] = (char)nd_range(0, 127); g_name[1] = (char)nd_range(0, 127); g_name[2] = 0;
}

#ifdef OP_LIFE_SERVER
int main(void)
{
    life_init(S, US, xcm_socket_type_server);
    int rc = ux_server(S, "x");
    if (rc < 0) {
	/* xcm_tp.h: after a failed server() the transport has cleaned up; close is not called */
	check_all_released(true);
	CHECK(g_reg_del == g_reg_add, "C08: failed server(): registration removed");
	WITNESS(g_opened == 1 && g_bound[0], "listen() failed after bind() succeeded");
	WITNESS(g_opened == 0, "socket() failed");
    } else {
	CHECK(fd_valid(US->fd) && g_listening[US->fd - FD0] && g_reg_add == 1, "C04: a server socket listens and its descriptor is registered");
	bool owner = nd_bool();
	if (owner) ux_close(S); else ux_cleanup(S);
	check_all_released(owner);
	if (!owner) {
	    CHECK(g_unlink_calls == 0, "C08: xcm_cleanup leaves the owner's socket file alone");
	    CHECK(g_reg_del == 0, "C08: xcm_cleanup does not touch the (shared) epoll registrations");
	}
	WITNESS(owner, "server closed by its owner");
    }
    CHECK(!g_stray_close, "C08: no stray close");
    return 0;
}
#endif

#ifdef OP_LIFE_CONNECT
int main(void)
{
    life_init(S, US, xcm_socket_type_conn);
    int rc = ux_connect(S, "x");
    if (rc < 0) {
	check_all_released(true);
	WITNESS(g_opened == 1, "connect() or SO_PASSCRED failed after socket() succeeded");
    } else {
	CHECK(fd_valid(US->fd) && g_connected[US->fd - FD0] && g_reg_add == 1, "C04: an established connection has its descriptor registered");
	bool owner = nd_bool();
	if (owner) ux_close(S); else ux_cleanup(S);
	check_all_released(owner);
	CHECK(g_unlink_calls == 0, "C08: a connection socket never unlinks anything");
	WITNESS(!owner, "connection cleaned up in a forked child");
    }
    CHECK(!g_stray_close, "C08: no stray close");
    return 0;
}
#endif

#ifdef OP_LIFE_ACCEPT
int main(void)
{
    life_init(S, US, xcm_socket_type_server);
    US->fd = new_fd(true); g_bound[0] = g_listening[0] = true; US->fd_reg_id = FD_REG; g_reg_add = 1;
    struct xcm_socket *c = &sock2.s; struct ux_socket *cu = &sock2.priv;
    c->proto = &proto; c->type = xcm_socket_type_conn; c->xpoll = (struct xpoll *)&sock;
    memset(cu, 0, sizeof(*cu)); ux_init(c, S);
    int rc = ux_accept(c, S);
    if (rc < 0) {
	CHECK(g_opened == 1 && cu->fd == -1, "C08: failed accept leaves the connection socket clean");
    } else {
	CHECK(fd_valid(cu->fd) && cu->fd != US->fd, "C08: accepted connection has its own descriptor");
	ux_close(c);
	CHECK(g_open[0] && !g_open[1] && g_close_calls[1] == 1, "C08: closing the accepted connection closes its descriptor only");
	WITNESS(1, "accepted and closed");
    }
    CHECK(g_unlink_calls == 0 && !g_stray_close, "C08: accept/close of a connection touches neither files nor foreign descriptors");
    return 0;
}
#endif

#ifdef OP_ADDR
/* xcm.local_addr / xcm.remote_addr of ux/uxf: whatever name and length the kernel reports, no out-of-bounds access */
int main(void)
{
    setup_conn();
    const char *a = nd_bool() ? OPS.get_local_addr(S, true) : OPS.get_remote_addr(S, true);
    if (a != NULL) CHECK(g_make_name_len <= UX_NAME_MAX, "C10: the name handed on fits the documented limit");
    WITNESS(a != NULL && g_make_name_len == UX_NAME_MAX, "longest name");
    return 0;
}
#endif
