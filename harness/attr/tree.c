/* xcm.c (xcm_attr_get/set and typed variants) + attr_tree.c + attr_node.c +
 * attr_path.c, all real, over a small tree whose value nodes have WORST-CASE
 * mock getters/setters: a getter of a fixed-size type copies its full value
 * without looking at the capacity (what several real getters do), a str/bin
 * getter honours the capacity.  Decides the framework half of C10: whatever
 * the getters are, the caller's buffer is never overrun, errors map as
 * documented, set is type/permission checked before any setter runs.
 *
 *  -DATYPE=<xcm_attr_type_...>   type of the attribute "a" (RW) and "b" (RO)
 *  -DOP_GET | OP_TYPED | OP_SET
 */
#include "stubs.h"
#define STR_MAX 16
#include "libc_str.h"
#define strtol(s, e, b) m_strtol10(s, e)
#define snprintf m_snprintf
#define MM_MAX 16
#define MM_ALLOC 16
#include "memmodel.h"

char *ut_strdup(const char *s)
{
    char *p = malloc(8);
    ASSUME(p != NULL);
    size_t i;
    for (i = 0; i < 7 && s[i] != '\0'; i++) p[i] = s[i];
    CHECK(s[i] == '\0', "harness: key within the modelled size");
    p[i] = '\0';
    return p;
}
char *ut_vasprintf(const char *fmt, va_list ap) { (void)ap; return ut_strdup(fmt); }

#include "attr_path.c"
/* CBMC 6.11 loses writes made through a pointer into a member of a union
 * (TAILQ_INSERT_TAIL through tqh_last into attr_node's anonymous union: a
 * 12-line reproducer fails).  attr_node.c is therefore compiled with its one
 * union turned into a struct; the code never reads a member other than the
 * one its node type selects, so the behaviour is the same. */
#include <sys/queue.h>
#define union struct
#include "attr_node.c"
#undef union
#include "attr_tree.c"
#undef snprintf
#undef strtol
#include "xcm.c"

/* value formatting for the (disabled) debug log: empty body */
void log_attr_str_value(enum xcm_attr_type type, const void *value, size_t len, char *buf, size_t capacity)
{ (void)type; (void)value; (void)len; (void)buf; (void)capacity; }

#ifndef ATYPE
#define ATYPE xcm_attr_type_int64
#endif
#define VLEN 3   /* str/bin value: 3 bytes ("xy\0" resp. 3 arbitrary bytes) */

static size_t type_size(enum xcm_attr_type t)
{
    switch (t) {
    case xcm_attr_type_bool: return sizeof(bool);
    case xcm_attr_type_int64: return sizeof(int64_t);
    case xcm_attr_type_double: return sizeof(double);
    default: return VLEN;
    }
}
static bool type_fixed(enum xcm_attr_type t) { return t == xcm_attr_type_bool || t == xcm_attr_type_int64 || t == xcm_attr_type_double; }

static struct xcm_socket sock;
static uint8_t g_value[8];
static int g_get_calls, g_set_calls;
static size_t g_get_capacity;
static bool g_get_failed;

/* worst-case getter */
static int mock_get(struct xcm_socket *s, void *context, void *value, size_t capacity)
{
    (void)context;
    CHECK(s == &sock, "C10: getter called for the socket asked about");
    g_get_calls++;
    g_get_capacity = capacity;
    size_t n = type_size(ATYPE);
    if (!type_fixed(ATYPE) && n > capacity) { errno = EOVERFLOW; return -1; }
    if (nd_bool()) { g_get_failed = true; errno = nd_bool() ? ENOENT : EAGAIN; return -1; }   /* e.g. not available in this state */
    memcpy(value, g_value, n);           /* fixed-size types: capacity ignored */
    return (int)n;
}
static int mock_set(struct xcm_socket *s, void *context, const void *value, size_t len)
{
    (void)s; (void)context; (void)value; (void)len;
    g_set_calls++;
    if (nd_bool()) { errno = nd_bool() ? EINVAL : EACCES; return -1; }
    return 0;
}

void xcm_tp_common_attr_populate(struct xcm_socket *s, struct attr_tree *tree)
{
    ATTR_TREE_ADD_RW(tree, "a", s, ATYPE, mock_set, mock_get);
    ATTR_TREE_ADD_RO(tree, "b", s, ATYPE, mock_get);
    ATTR_TREE_ADD_RO(tree, "d.c", s, ATYPE, mock_get);      /* a dictionary node "d" */
}
void xcm_tp_socket_attr_populate(struct xcm_socket *s, struct attr_tree *tree) { (void)s; (void)tree; }

#define NAMELEN 3
static void nd_name(char *name)
{
    for (int i = 0; i < NAMELEN; i++) name[i] = (char)nd_u8();
    name[NAMELEN] = '\0';
}
static bool is_name(const char *n, const char *lit) { return strcmp(n, lit) == 0; }

#define BUFMAX 12
int main(void)
{
    for (int i = 0; i < 8; i++) g_value[i] = nd_u8();
    if (ATYPE == xcm_attr_type_str) g_value[VLEN - 1] = 0;
    char name[NAMELEN + 1];
    nd_name(name);
    bool value_node = is_name(name, "a") || is_name(name, "b") || is_name(name, "d.c");
    size_t need = type_size(ATYPE);

#ifdef OP_GET
    size_t cap = (size_t)nd_range(0, BUFMAX);
    uint8_t buf[BUFMAX + 1];
    memset(buf, 0x55, sizeof(buf));
    enum xcm_attr_type t = (enum xcm_attr_type)77;
    errno = 0;
    int rc = xcm_attr_get(&sock, name, &t, buf, cap);
    int e = errno;
    for (size_t i = 0; i <= BUFMAX; i++)
	if (i >= cap) CHECK(buf[i] == 0x55, "C10: xcm_attr_get never writes more than `capacity` bytes into the caller's buffer");
    if (rc >= 0) {
	CHECK(value_node, "C10: only existing value attributes can be read");
	CHECK((size_t)rc == need && (size_t)rc <= cap, "C10: on success the returned length is the value's size and fits the capacity");
	CHECK(t == ATYPE, "C10: the reported type is the attribute's type");
	for (size_t i = 0; i < 8; i++) if (i < need) CHECK(buf[i] == g_value[i], "C10: the bytes written are the value");
	WITNESS(cap == need, "value exactly fills the buffer");
    } else {
	if (!value_node) CHECK(e == ENOENT || e == EINVAL || e == EACCES, "C10: unknown, malformed or non-value names are refused with ENOENT/EINVAL/EACCES");
	if (value_node && cap < need) CHECK(e == EOVERFLOW, "C10: a value that does not fit yields EOVERFLOW");
	if (value_node && cap < need && type_fixed(ATYPE)) CHECK(g_get_calls == 0, "C10: a fixed-size getter is not even called with too small a buffer");
	WITNESS(value_node && cap + 1 == need, "capacity one short -> EOVERFLOW");
	WITNESS(is_name(name, "d"), "dictionary node is not a value");
    }
#endif

#ifdef OP_TYPED
    /* each typed getter into an object of exactly its own size */
    bool vb = false; int64_t vi = 0; double vd = 0; char vs[VLEN]; uint8_t vbin[VLEN];
#ifndef WHICH
#define WHICH 1
#endif
    int which = WHICH;      /* the typed getter is concrete per obligation */
    enum xcm_attr_type want;
    errno = 0;
    int rc;
#ifdef FMT
    /* the formatted variants (ut_vasprintf is a copying stub: the name is the format string itself) */
    switch (which) {
    case 0: want = xcm_attr_type_bool; rc = xcm_attr_getf_bool(&sock, &vb, name); break;
    case 1: want = xcm_attr_type_int64; rc = xcm_attr_getf_int64(&sock, &vi, name); break;
    case 2: want = xcm_attr_type_double; rc = xcm_attr_getf_double(&sock, &vd, name); break;
    case 3: want = xcm_attr_type_str; rc = xcm_attr_getf_str(&sock, vs, sizeof(vs), name); break;
    default: want = xcm_attr_type_bin; rc = xcm_attr_getf_bin(&sock, vbin, sizeof(vbin), name); break;
    }
#else
    switch (which) {
    case 0: want = xcm_attr_type_bool; rc = xcm_attr_get_bool(&sock, name, &vb); break;
    case 1: want = xcm_attr_type_int64; rc = xcm_attr_get_int64(&sock, name, &vi); break;
    case 2: want = xcm_attr_type_double; rc = xcm_attr_get_double(&sock, name, &vd); break;
    case 3: want = xcm_attr_type_str; rc = xcm_attr_get_str(&sock, name, vs, sizeof(vs)); break;
    default: want = xcm_attr_type_bin; rc = xcm_attr_get_bin(&sock, name, vbin, sizeof(vbin)); break;
    }
#endif
    int e = errno;
    if (rc >= 0) {
	CHECK(value_node && want == ATYPE, "C10: a typed getter succeeds only for an attribute of its own type");
	CHECK((size_t)rc == need, "C10: typed getter returns the value's size");
#ifdef MATCH
	WITNESS(1, "typed read of the matching type succeeds");
#endif
    } else {
	if (value_node && want != ATYPE) CHECK(e == ENOENT || (g_get_failed && e == EAGAIN), "C10: a typed getter of another type reports ENOENT (unless the attribute's own getter failed)");
	if (value_node && want == ATYPE) CHECK(e != ENOENT || g_get_calls > 0, "C10: a typed getter of the matching type does not report ENOENT on its own");
	WITNESS(value_node, "typed read of an existing attribute refused");
    }
#endif

#ifdef OP_SET
    enum xcm_attr_type st = (enum xcm_attr_type)nd_range(xcm_attr_type_bool, xcm_attr_type_double);
    ASSUME(st == xcm_attr_type_bool || st == xcm_attr_type_int64 || st == xcm_attr_type_str || st == xcm_attr_type_bin || st == xcm_attr_type_double);
    size_t len = (size_t)nd_range(0, 9);
    uint8_t val[10];
    for (int i = 0; i < 10; i++) val[i] = nd_u8();
    errno = 0;
    int rc = xcm_attr_set(&sock, name, st, val, len);
    int e = errno;
    bool len_ok = type_fixed(st) ? len == type_size(st) : (st == xcm_attr_type_str ? len > 0 : true);
    if (rc == 0) {
	CHECK(is_name(name, "a"), "C10: only the writable attribute can be set");
	CHECK(st == ATYPE && len_ok, "C10: a set with the wrong type or length never succeeds");
	CHECK(g_set_calls == 1, "C10: exactly one setter call");
	WITNESS(1, "set accepted");
    } else {
	if (!len_ok) CHECK(e == EINVAL && g_set_calls == 0, "C10: wrong length -> EINVAL, no setter called");
	else if (!value_node) CHECK((e == ENOENT || e == EINVAL || e == EACCES) && g_set_calls == 0, "C10: unknown name -> ENOENT (EINVAL if malformed), no setter called");
	else if (!is_name(name, "a")) CHECK(e == EACCES && g_set_calls == 0, "C10: read-only attribute -> EACCES, no setter called");
	else if (st != ATYPE) CHECK(e == EINVAL && g_set_calls == 0, "C10: wrong type -> EINVAL, no setter called");
	WITNESS(is_name(name, "b") && len_ok && e == EACCES, "read-only refused");
	WITNESS(is_name(name, "a") && len_ok && st != ATYPE, "wrong type refused");
    }
    CHECK(g_get_calls == 0, "C10: set never invokes a getter");
#endif
    return 0;
}
