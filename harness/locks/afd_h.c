/* libxcm/tp/common/active_fd.c (real): the process-wide pool of always-readable
 * eventfds, one get/put from an arbitrary valid pool of <= 2 entries, with
 * POISONING mutex stubs: while the mutex is not held the real list head holds
 * a dangling pointer, so any access to the shared list outside the critical
 * section is a pointer failure; lock/unlock must balance on every path; the
 * representation invariant is re-established at every unlock (the guarantee
 * half of a rely/guarantee argument for arbitrary other threads).
 * Serves C15 (lock discipline only - see DESIGN) and C08 (reference counting).
 *  -DOP_GET | OP_PUT
 */
#include "stubs.h"
#include <errno.h>
#include <pthread.h>
#include <sys/eventfd.h>
#include <sys/queue.h>

#define NEWFD 40
static int g_eventfd_calls, g_close_calls, g_closed_fd = -1; static bool g_eventfd_fail;
int eventfd(unsigned int initval, int flags) { g_eventfd_calls++; CHECK(initval == 1 && (flags & EFD_NONBLOCK), "C04: the shared eventfd is created readable (counter 1) and non-blocking"); if (g_eventfd_fail) { errno = EMFILE; return -1; } return NEWFD; }
void ut_close(int fd) { g_close_calls++; g_closed_fd = fd; }
void *ut_malloc(size_t n) { void *p = malloc(n); ASSUME(p != NULL); return p; }
void ut_free(void *p) { free(p); }

static int g_held; static int g_lock_calls, g_unlock_calls;
void ut_mutex_lock(pthread_mutex_t *m);
void ut_mutex_unlock(pthread_mutex_t *m);

#include "active_fd.c"

/* the true shared state lives here while the mutex is free */
static struct active_fd *g_true_head;
#define POISON ((struct active_fd *)(uintptr_t)0x10)     /* not a valid object: any dereference fails */
static void check_pool_inv(void);
void ut_mutex_lock(pthread_mutex_t *m)
{
    CHECK(m == &active_fd_lock, "C15: the pool is guarded by its own mutex");
    CHECK(g_held == 0, "C15: the mutex is not taken twice (self-deadlock)");
    CHECK(active_fds.lh_first == POISON, "C15: the shared list was not written outside the critical section");
    active_fds.lh_first = g_true_head;
    g_held = 1; g_lock_calls++;
}
void ut_mutex_unlock(pthread_mutex_t *m)
{
    CHECK(m == &active_fd_lock && g_held == 1, "C15: unlock only what is held");
    check_pool_inv();                       /* what every other thread may rely on */
    g_true_head = active_fds.lh_first;
    active_fds.lh_first = POISON;
    g_held = 0; g_unlock_calls++;
}
static void check_pool_inv(void)
{
    int n = 0;
    struct active_fd *a;
    LIST_FOREACH(a, &active_fds, elem) {
	CHECK(n < 3, "C15: INV the pool list is acyclic (within the bound)");
	CHECK(a->cnt >= 1 && a->cnt <= MAX_USERS_PER_FD, "C08,C15: INV every pooled eventfd has 1..100 users");
	CHECK(a->fd >= 0, "C08: INV pooled descriptors are valid");
	n++;
	if (n >= 3) break;
    }
}

static struct active_fd *node[2]; static int pre_cnt[2], pre_fd[2]; static int npool;
static void build_pool(void)
{
    npool = (int)nd_range(0, 2);
    g_true_head = NULL;
    LIST_INIT(&active_fds);
    for (int i = 0; i < 2; i++) if (i < npool) {
	node[i] = malloc(sizeof(struct active_fd)); ASSUME(node[i] != NULL);
	node[i]->fd = 20 + i; node[i]->cnt = (int)nd_range(1, MAX_USERS_PER_FD);
	pre_cnt[i] = node[i]->cnt; pre_fd[i] = node[i]->fd;
	LIST_INSERT_HEAD(&active_fds, node[i], elem);
    }
    g_true_head = active_fds.lh_first;
    active_fds.lh_first = POISON;           /* mutex free */
    g_eventfd_fail = nd_bool();
}

int main(void)
{
    build_pool();
#ifdef OP_GET
    int fd = active_fd_get();
    CHECK(g_held == 0 && g_lock_calls == g_unlock_calls && g_lock_calls == 1, "C15: exactly one balanced critical section per call, on every path");
    bool spare = false; for (int i = 0; i < 2; i++) if (i < npool && pre_cnt[i] < MAX_USERS_PER_FD) spare = true;
    if (spare) {
	CHECK(g_eventfd_calls == 0 && (fd == 20 || fd == 21), "C08: an eventfd with spare capacity is shared, no new descriptor is created");
	int k = fd - 20; CHECK(node[k]->cnt == pre_cnt[k] + 1 && pre_cnt[k] < MAX_USERS_PER_FD, "C08: its user count goes up by one and never beyond 100 (the kernel's per-fd epoll limit)");
    } else {
	CHECK(g_eventfd_calls == 1, "C08: when every pooled eventfd is full a new one is created");
	if (g_eventfd_fail) CHECK(fd == -1, "C08: eventfd() exhaustion is reported, not hidden");
	else CHECK(fd == NEWFD && g_true_head != NULL && g_true_head->fd == NEWFD && g_true_head->cnt == 1, "C08: the new eventfd enters the pool with one user");
	WITNESS(npool == 2 && !g_eventfd_fail, "the 101st user gets a second eventfd");
    }
    CHECK(g_close_calls == 0, "C08: get closes nothing");
#endif
#ifdef OP_PUT
    ASSUME(npool >= 1);
    int k = (int)nd_range(0, npool - 1);
    active_fd_put(pre_fd[k]);
    CHECK(g_held == 0 && g_lock_calls == g_unlock_calls && g_lock_calls == 1, "C15: exactly one balanced critical section per call, on every path");
    if (pre_cnt[k] == 1) {
	CHECK(g_close_calls == 1 && g_closed_fd == pre_fd[k], "C08: the eventfd is closed when its last user lets go - exactly that one, exactly once");
	struct active_fd *a; int n = 0; for (a = g_true_head; a != NULL && n < 3; a = a->elem.le_next) { CHECK(a->fd != pre_fd[k], "C08: a closed eventfd is no longer in the pool"); n++; }
	WITNESS(npool == 2, "one of two pooled eventfds released");
    } else {
	CHECK(g_close_calls == 0 && node[k]->cnt == pre_cnt[k] - 1, "C08: otherwise only its user count drops by one");
    }
    for (int i = 0; i < 2; i++) if (i < npool && i != k) CHECK(node[i]->cnt == pre_cnt[i], "C15: other pool entries are untouched");
#endif
    CHECK(active_fds.lh_first == POISON, "C15: the shared list is not touched after the mutex was released");
    return 0;
}
