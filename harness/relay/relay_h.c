/* tools/xcmrelay/xrelay.c and rserver.c (real) over an XCM-API contract mock and
 * a LIBEVENT mock: one callback firing (xfwd_active, either direction, either
 * descriptor) from an arbitrary valid forwarder state; rserver_accept with the
 * onward connection set up through the mock.  Serves C20.
 *  -DOP_FIRE [-DBYTESTREAM] | OP_START | OP_ACCEPT | OP_TERM [-DKF_RELAY_CLOSE_BEFORE_DRAIN]
 */
#include "stubs.h"
#include <errno.h>
#include <string.h>
#include <event.h>
#include <xcm.h>
#include <xcm_attr.h>
#include <xcm_attr_map.h>
#define LMAX 6
#define MM_MAX (LMAX + 2)
#include "memmodel.h"

/* ---- XCM-API contract mock: two connections ---------------------------------------- */
static struct { int d; } c0_token, c1_token, srv_token, map_token;
#define SRC ((struct xcm_socket *)&c0_token)
#define DST ((struct xcm_socket *)&c1_token)
#define FD_SRC 10
#define FD_DST 11
static int g_send_calls, g_recv_calls, g_finish_calls; static struct xcm_socket *g_send_conn, *g_recv_conn, *g_finish_conn;
static const void *g_send_buf; static size_t g_send_len; static int g_send_rc, g_send_errno; static uint8_t g_sent_bytes[LMAX];
static int g_recv_rc, g_recv_errno; static uint8_t g_recv_msg[LMAX]; static void *g_recv_buf; static size_t g_recv_cap;
static int g_cond[2] = { -1, -1 }; static int g_await_calls;
static int g_close_calls; static struct xcm_socket *g_closed[4]; static int g_finish_rc_dst_before_close = -2;
static int g_blocking_calls; static bool g_set_blocking_fail;
static int idx_of(struct xcm_socket *s) { return s == SRC ? 0 : 1; }
int xcm_fd(struct xcm_socket *s) { return s == SRC ? FD_SRC : (s == DST ? FD_DST : 12); }
int xcm_await(struct xcm_socket *s, int cond) { g_await_calls++; if (s == SRC || s == DST) g_cond[idx_of(s)] = cond; return 0; }
int xcm_send(struct xcm_socket *s, const void *buf, size_t len)
{
    g_send_calls++; g_send_conn = s; g_send_buf = buf; g_send_len = len;
    for (size_t i = 0; i < LMAX; i++) if (i < len) g_sent_bytes[i] = ((const uint8_t *)buf)[i];
    int m = (int)nd_range(0, 2);
    if (m == 2) { g_send_rc = -1; g_send_errno = nd_bool() ? EAGAIN : (nd_bool() ? EPIPE : ECONNRESET); errno = g_send_errno; return -1; }
#ifdef BYTESTREAM
    g_send_rc = (int)nd_range(1, len ? (long long)len : 1);      /* 1..len leading bytes accepted */
#else
    g_send_rc = 0;                                                  /* message accepted */
#endif
    return g_send_rc;
}
int xcm_receive(struct xcm_socket *s, void *buf, size_t cap)
{
    g_recv_calls++; g_recv_conn = s; g_recv_buf = buf; g_recv_cap = cap;
    int m = (int)nd_range(0, 2);
    if (m == 1) { g_recv_rc = 0; return 0; }
    if (m == 2) { g_recv_rc = -1; g_recv_errno = nd_bool() ? EAGAIN : ECONNRESET; errno = g_recv_errno; return -1; }
    int n = (int)nd_range(1, LMAX);
    for (int i = 0; i < LMAX; i++) { g_recv_msg[i] = nd_u8(); if (i < n) ((uint8_t *)buf)[i] = g_recv_msg[i]; }
    g_recv_rc = n; return n;
}
int xcm_finish(struct xcm_socket *s) { g_finish_calls++; g_finish_conn = s; if (nd_bool()) return 0; errno = nd_bool() ? EAGAIN : ECONNRESET; return -1; }
int xcm_set_blocking(struct xcm_socket *s, bool b) { (void)s; g_blocking_calls++; CHECK(!b, "C20: relayed connections run non-blocking (the single event loop never waits inside XCM)"); if (g_set_blocking_fail) { errno = EPIPE; return -1; } return 0; }
int xcm_close(struct xcm_socket *s) { if (g_close_calls < 4) g_closed[g_close_calls] = s; g_close_calls++; return 0; }
/* LIBEVENT mock */
static int g_ev_assign, g_ev_add, g_ev_del; static int g_ev_fd[4]; static short g_ev_flags[4];
int event_assign(struct event *ev, struct event_base *b, evutil_socket_t fd, short what, event_callback_fn cb, void *arg) { (void)ev; (void)b; (void)cb; (void)arg; if (g_ev_assign < 4) { g_ev_fd[g_ev_assign] = fd; g_ev_flags[g_ev_assign] = what; } g_ev_assign++; return 0; }
int event_add(struct event *ev, const struct timeval *tv) { (void)ev; (void)tv; g_ev_add++; return 0; }
int event_del(struct event *ev) { (void)ev; g_ev_del++; return 0; }

static int g_err_calls, g_err_reason;
static void err_cb(int reason, const char *msg, void *data) { (void)msg; (void)data; g_err_calls++; g_err_reason = reason; }

#include "xrelay.c"

#if defined(OP_ACCEPT) || defined(OP_TERM)
/* ---- rserver.c over the same mocks -------------------------------------------------- */
static struct { int d; } map_srv_conn, map_cli_conn, map_tmp;
static bool g_map_nonblocking[3];                       /* which attribute maps carry xcm.blocking=false */
static int map_idx(const struct xcm_attr_map *m) { return m == (void *)&map_srv_conn ? 0 : (m == (void *)&map_cli_conn ? 1 : 2); }
static int g_clone_calls;
struct xcm_attr_map *xcm_attr_map_clone(const struct xcm_attr_map *o) { (void)o; g_clone_calls++; return (struct xcm_attr_map *)(g_clone_calls == 1 ? (void *)&map_tmp : (g_clone_calls == 2 ? (void *)&map_srv_conn : (void *)&map_cli_conn)); }
void xcm_attr_map_add_bool(struct xcm_attr_map *m, const char *name, bool v) { if (strcmp(name, "xcm.blocking") == 0 && !v) g_map_nonblocking[map_idx(m)] = true; }
void xcm_attr_map_destroy(struct xcm_attr_map *m) { (void)m; }
static bool g_server_nonblocking, g_connect_nonblocking, g_accept_ok, g_connect_ok; static int g_connect_calls, g_accept_calls;
struct xcm_socket *xcm_server_a(const char *a, const struct xcm_attr_map *m) { (void)a; g_server_nonblocking = g_map_nonblocking[map_idx(m)]; return (struct xcm_socket *)&srv_token; }
struct xcm_socket *xcm_accept_a(struct xcm_socket *s, const struct xcm_attr_map *m) { (void)s; (void)m; g_accept_calls++; return g_accept_ok ? SRC : NULL; }
struct xcm_socket *xcm_connect_a(const char *a, const struct xcm_attr_map *m) { (void)a; g_connect_calls++; g_connect_nonblocking = g_map_nonblocking[map_idx(m)]; return g_connect_ok ? DST : NULL; }
int xcm_attr_get_str(struct xcm_socket *s, const char *n, char *v, size_t cap) { (void)s; (void)n; if (cap > 2) { v[0] = 'm'; v[1] = 0; } return 2; }
void *ut_malloc(size_t n);
char *ut_strdup(const char *s) { char *p = malloc(8); ASSUME(p != NULL); p[0] = s[0]; p[1] = 0; return p; }
#include "rserver.c"
#endif

static struct xfwd fwd; static int cond_src, cond_dst; static uint8_t pre_data[LMAX]; static int pre_len;
static void build_fwd(void)
{
    xfwd_init(&fwd, SRC, DST, &cond_src, &cond_dst, err_cb, NULL, NULL);
    fwd.running = true;
    pre_len = (int)nd_range(0, LMAX);
    fwd.data_len = pre_len;
    for (int i = 0; i < LMAX; i++) { pre_data[i] = nd_u8(); fwd.data[i] = (char)pre_data[i]; }
    /* INV_relay: this direction's bits; the other direction's bits of the shared words are arbitrary */
    int other_src = nd_bool() ? XCM_SO_SENDABLE : 0, other_dst = nd_bool() ? XCM_SO_RECEIVABLE : 0;
    cond_src = other_src | (pre_len == 0 ? XCM_SO_RECEIVABLE : 0);
    cond_dst = other_dst | (pre_len > 0 ? XCM_SO_SENDABLE : 0);
}
static void check_inv(void)
{
    CHECK(fwd.data_len >= 0 && fwd.data_len <= (int)sizeof(fwd.data), "C20: INV the held data fits the buffer");
    CHECK(((cond_src & XCM_SO_RECEIVABLE) != 0) == (fwd.data_len == 0), "C20: INV input is awaited from the source exactly while nothing is held (a held message is never overwritten, an idle direction never stalls)");
    CHECK(((cond_dst & XCM_SO_SENDABLE) != 0) == (fwd.data_len > 0), "C20: INV the destination is awaited for sending exactly while something is held");
}

#ifdef OP_FIRE
int main(void)
{
    build_fwd();
    int other_src = cond_src & XCM_SO_SENDABLE, other_dst = cond_dst & XCM_SO_RECEIVABLE;
    int fd = nd_bool() ? FD_SRC : FD_DST;
    xfwd_active(fd, EV_READ, &fwd);
    CHECK(g_send_calls + g_recv_calls + g_finish_calls == 1, "C20: every firing calls exactly one of xcm_send/xcm_receive/xcm_finish (the event-loop contract of XCM)");
    if (g_send_calls + g_recv_calls + g_finish_calls == 1) {
	struct xcm_socket *touched = g_send_calls ? g_send_conn : (g_recv_calls ? g_recv_conn : g_finish_conn);
	CHECK(xcm_fd(touched) == fd, "C20: ... on the connection whose descriptor fired");
    }
    if (g_recv_calls) {
	CHECK(pre_len == 0 && g_recv_conn == SRC && g_recv_buf == (void *)fwd.data && g_recv_cap == sizeof(fwd.data), "C20: the next message is read from the source only when nothing is held, into the whole buffer (no truncation)");
	if (g_recv_rc > 0) {
	    CHECK(fwd.data_len == g_recv_rc, "C20: the message obtained is held whole");
	    for (int i = 0; i < LMAX; i++) if (i < g_recv_rc) CHECK((uint8_t)fwd.data[i] == g_recv_msg[i], "C20: ... unmodified");
	    WITNESS(g_recv_rc == LMAX, "message received and held");
	} else if (g_recv_rc == 0) CHECK(g_err_calls == 1 && g_err_reason == 0, "C20: end of stream on one side ends the relay pair");
	else CHECK(fwd.data_len == 0, "C20: nothing received, nothing held");
    }
    if (g_send_calls) {
	CHECK(pre_len > 0 && g_send_conn == DST && g_send_buf == (const void *)fwd.data && (int)g_send_len == pre_len, "C20: what is offered to the destination is exactly the held data (nothing is sent that was not received)");
	for (int i = 0; i < LMAX; i++) if (i < pre_len) CHECK(g_sent_bytes[i] == pre_data[i], "C20: ... unmodified, in order");
	if (g_send_rc == 0) CHECK(fwd.data_len == 0, "C20: an accepted message is released");
	else if (g_send_rc > 0) {
	    CHECK(fwd.data_len == pre_len - g_send_rc, "C20: byte stream: exactly the accepted bytes leave the buffer");
	    for (int i = 0; i < LMAX; i++) if (i < fwd.data_len) CHECK((uint8_t)fwd.data[i] == pre_data[g_send_rc + i], "C20: byte stream: the unsent tail stays, in order, to be sent next (no byte re-sent, none lost)");
#ifdef BYTESTREAM
	    WITNESS(g_send_rc < pre_len, "partial acceptance by the destination");
#endif
	} else {
	    CHECK(fwd.data_len == pre_len, "C20: a refused send (EAGAIN, back-pressure) keeps the data for the next attempt");
	    for (int i = 0; i < LMAX; i++) if (i < pre_len) CHECK((uint8_t)fwd.data[i] == pre_data[i], "C20: ... unmodified");
	    if (g_send_errno == EAGAIN) CHECK(g_err_calls == 0, "C20: back-pressure on one leg neither ends nor stalls the relay");
	}
    }
    if (!g_send_calls && !g_recv_calls) { CHECK(fwd.data_len == pre_len, "C20: a firing of the other descriptor changes nothing held"); }
    CHECK((cond_src & XCM_SO_SENDABLE) == other_src && (cond_dst & XCM_SO_RECEIVABLE) == other_dst, "C20: each direction only touches its own bits of the shared condition words (traffic in both directions at once)");
    if (g_await_calls > 0) CHECK(g_cond[0] == cond_src && g_cond[1] == cond_dst, "C20: the conditions recorded are the ones given to xcm_await");
    if (g_err_calls == 0) check_inv();
    return 0;
}
#endif

#ifdef OP_START
int main(void)
{
    xfwd_init(&fwd, SRC, DST, &cond_src, &cond_dst, err_cb, NULL, NULL);
    cond_src = nd_bool() ? XCM_SO_SENDABLE : 0; cond_dst = nd_bool() ? XCM_SO_RECEIVABLE : 0;
    g_set_blocking_fail = nd_bool();
    int rc = xfwd_start(&fwd);
    if (rc == 0) {
	CHECK(fwd.running && g_ev_add == 2 && g_ev_fd[0] == FD_SRC && g_ev_fd[1] == FD_DST, "C20: both descriptors of the pair are watched");
	CHECK((g_ev_flags[0] & EV_READ) && (g_ev_flags[0] & EV_PERSIST), "C20: XCM descriptors are watched for readability only, persistently");
	CHECK(g_blocking_calls == 2, "C20: both connections are made non-blocking");
	check_inv();
	WITNESS(1, "forwarder started");
    } else CHECK(g_set_blocking_fail && !fwd.running && g_ev_add == 0, "C20: a forwarder that cannot be started is left stopped");
    return 0;
}
#endif

#ifdef OP_ACCEPT
/* a new client arrives: both legs of the new pair are set up without ever blocking the (single) event loop */
static int g_fatal_calls;
static void the_fatal(void *d) { (void)d; g_fatal_calls++; }       /* xcmrelay's main() exits the process here */
int main(void)
{
    struct rserver *srv = rserver_create("s", NULL, NULL, "c", NULL, the_fatal, NULL, NULL);
    CHECK(srv != NULL && g_server_nonblocking, "C20: the relay's server socket is non-blocking");
    g_accept_ok = nd_bool(); g_connect_ok = nd_bool(); g_set_blocking_fail = false;
    rserver_accept(12, EV_READ, srv);
    if (g_accept_ok) {
	CHECK(g_connect_calls == 1 && g_connect_nonblocking, "C20: the onward connection is established in non-blocking mode - a target that is slow to accept does not stall the connections already being relayed");
	if (g_connect_ok) { CHECK(rserver_num_relays(srv) == 1 && g_ev_add == 4, "C20: the new pair is relayed in both directions"); WITNESS(1, "pair established"); }
	else CHECK(g_close_calls == 1 && g_closed[0] == SRC && rserver_num_relays(srv) == 0, "C20: if the target cannot be reached the accepted client is closed, other relays are untouched");
    } else CHECK(g_connect_calls == 0 && g_close_calls == 0, "C20: nothing to do without a pending client");
    CHECK(g_fatal_calls == 0, "C20: trouble with ONE client or its target (nothing to accept, target unreachable) is never fatal to the relay: the pairs already being relayed go on");
    return 0;
}
#endif

#ifdef OP_TERM
/* one side closed: what happens to the other leg */
static bool g_unflushed_dst;
int main(void)
{
    struct rserver *srv = rserver_create("s", NULL, NULL, "c", NULL, NULL, NULL, NULL);
    g_accept_ok = g_connect_ok = true;
    rserver_accept(12, EV_READ, srv);
    struct xrelay *r = LIST_FIRST(&srv->relays);
    ASSUME(r != NULL);
    /* a message from SRC was accepted by xcm_send(DST) earlier and may still sit in XCM's buffer for DST (non-blocking send) */
    g_unflushed_dst = nd_bool();
#ifdef KF_RELAY_CLOSE_BEFORE_DRAIN
    ASSUME(!g_unflushed_dst);
#endif
    int f0 = g_finish_calls;
    /* SRC reports end of stream */
    r->fwd0.data_len = 0;
    rserver_terminate_relay(r, 0, NULL, srv);
    CHECK(g_close_calls == 2 && rserver_num_relays(srv) == 0 && g_ev_del == 4, "C20: the pair is torn down completely, its events removed");
    CHECK(!g_unflushed_dst || g_finish_calls > f0, "C20: when one side closes, the other leg is closed only after everything accepted from the closing side has left XCM on that leg (xcm_finish) - the peer sees the close after the last message");
#ifndef KF_RELAY_CLOSE_BEFORE_DRAIN
    WITNESS(g_unflushed_dst, "close while the last message is still buffered towards the other side");
#else
    WITNESS(g_close_calls == 2, "pair torn down with nothing buffered");
#endif
    return 0;
}
#endif
