/* libxcm/tp/dns/xcm_dns_cares.c (real) over a CARES contract mock (a query
 * completes - successfully with 1..n addresses, or not - at a moment of the
 * solver's choice, possibly already inside ares_getaddrinfo), the TIMER and
 * XPOLL contract mocks and a poll() stub.  Serves C13 C04 C05 C08.
 *  -DOP_SYNC | OP_PROCESS | OP_RESULT | OP_LIFE
 */
#include "stubs.h"
#include <errno.h>
#include <poll.h>
#include <string.h>
#include <sys/epoll.h>
#include <ares.h>
#include "timer_mgr.h"
#include "xpoll.h"

/* ---- TIMER / XPOLL mocks ----------------------------------------------------------- */
static struct { int d; } tm_token, xp_token, ch_token;
static bool g_tm_fail, g_overall_expired; static int g_tm_destroy; static bool g_tm_destroy_owner;
static int g_sched_calls; static double g_last_sched = -1; static int64_t g_next_timer = 1; static bool g_live[8];
struct timer_mgr *timer_mgr_create(struct xpoll *x, void *l) { (void)x; (void)l; return g_tm_fail ? NULL : (struct timer_mgr *)&tm_token; }
int64_t timer_mgr_schedule(struct timer_mgr *m, double rel) { (void)m; g_sched_calls++; g_last_sched = rel; CHECK(g_next_timer < 8, "harness: timers"); g_live[g_next_timer] = true; return g_next_timer++; }
void timer_mgr_reschedule(struct timer_mgr *m, double rel, int64_t *id) { if (*id >= 0 && *id < 8) g_live[*id] = false; *id = timer_mgr_schedule(m, rel); }
bool timer_mgr_has_expired(struct timer_mgr *m, int64_t id) { (void)m; CHECK(id >= 0 && id < 8 && g_live[id], "C13: only a live timer is asked about"); return g_overall_expired; }
void timer_mgr_cancel(struct timer_mgr *m, int64_t *id) { (void)m; if (*id >= 0 && *id < 8) g_live[*id] = false; *id = -1; }
void timer_mgr_destroy(struct timer_mgr *m, bool owner) { if (m != NULL) { g_tm_destroy++; g_tm_destroy_owner = owner; } }
static int g_reg_add, g_reg_del, g_reg_live; static int g_reg_fd[4], g_reg_ev[4];
int xpoll_fd_reg_add(struct xpoll *x, int fd, int ev) { (void)x; CHECK(g_reg_add < 16, "harness"); if (g_reg_live < 4) { g_reg_fd[g_reg_live] = fd; g_reg_ev[g_reg_live] = ev; } g_reg_add++; g_reg_live++; return 10 + g_reg_add; }
void xpoll_fd_reg_del(struct xpoll *x, int id) { (void)x; (void)id; g_reg_del++; g_reg_live--; }
static bool g_xpoll_fail; static int g_xpoll_destroy;
struct xpoll *xpoll_create(void *l) { (void)l; return g_xpoll_fail ? NULL : (struct xpoll *)&xp_token; }
void xpoll_destroy(struct xpoll *x) { if (x) g_xpoll_destroy++; }
int xpoll_get_fd(struct xpoll *x) { (void)x; return 9; }
static int g_poll_calls;
int poll(struct pollfd *f, nfds_t n, int t)
{
    (void)n; (void)t; g_poll_calls++;
    CHECK(f[0].fd == 9 && f[0].events == POLLIN, "C04: the synchronous resolver waits on its own xpoll descriptor");
    CHECK(g_poll_calls <= 3, "C04,C13: once the resolver has finished - successfully OR NOT - the synchronous wait ends: xcm_server on an unresolvable name fails instead of hanging");
    f[0].revents = POLLIN; return 1;
}
double ut_timeval_to_f(const struct timeval *tv) { (void)tv; return 1.0; }
void ut_mem_exhausted(void) { abort(); }
void *ut_malloc(size_t n) { void *p = malloc(n); ASSUME(p != NULL); return p; }
char *ut_strdup(const char *s) { char *p = malloc(8); ASSUME(p != NULL); p[0] = s[0]; p[1] = 0; return p; }
void ut_free(void *p) { free(p); }

/* ---- CARES contract mock -------------------------------------------------------------- */
#define NADDR 3
static ares_addrinfo_callback g_cb; static void *g_cb_arg; static bool g_query_pending;
static int g_complete_at;            /* at which c-ares entry the answer arrives: 0 = inside ares_getaddrinfo, 1.. = n-th ares_process*, 9 = never */
static int g_entries; static int g_status; static int g_n_answers; static int g_fam[NADDR];
static struct ares_addrinfo g_result; static struct ares_addrinfo_node g_nodes[NADDR]; static struct sockaddr_in g_sa4[NADDR]; static struct sockaddr_in6 g_sa6[NADDR];
static int g_free_calls, g_destroy_calls, g_init_rc; static int g_getsock_mask;
static void maybe_complete(void)
{
    if (!g_query_pending || g_entries < g_complete_at) return;
    g_query_pending = false;
    if (g_status == ARES_SUCCESS) {
	for (int i = 0; i < NADDR; i++) {
	    g_nodes[i].ai_family = g_fam[i]; g_nodes[i].ai_next = (i + 1 < g_n_answers) ? &g_nodes[i + 1] : NULL;
	    g_sa4[i].sin_addr.s_addr = (in_addr_t)(100 + i); g_sa6[i].sin6_addr.s6_addr[0] = (uint8_t)(100 + i);
	    g_nodes[i].ai_addr = g_fam[i] == AF_INET ? (struct sockaddr *)&g_sa4[i] : (struct sockaddr *)&g_sa6[i];
	}
	g_result.nodes = &g_nodes[0];
	g_cb(g_cb_arg, ARES_SUCCESS, 0, &g_result);
    } else
	g_cb(g_cb_arg, g_status, 0, NULL);
}
int ares_init_options(ares_channel *ch, struct ares_options *o, int m) { (void)o; (void)m; if (g_init_rc != ARES_SUCCESS) return g_init_rc; *ch = (ares_channel)&ch_token; return ARES_SUCCESS; }
void ares_getaddrinfo(ares_channel ch, const char *n, const char *s, const struct ares_addrinfo_hints *h, ares_addrinfo_callback cb, void *arg)
{ (void)ch; (void)n; (void)s; (void)h; g_cb = cb; g_cb_arg = arg; g_query_pending = true; maybe_complete(); }
static int g_process_fd_calls;
void ares_process_fd(ares_channel ch, ares_socket_t r, ares_socket_t w) { (void)ch; (void)r; (void)w; g_process_fd_calls++; }   /* (answers are delivered by the ares_process() call that follows in the same step) */
void ares_process(ares_channel ch, fd_set *r, fd_set *w) { (void)ch; (void)r; (void)w; g_entries++; maybe_complete(); }
int ares_getsock(ares_channel ch, ares_socket_t *socks, int n) { (void)ch; CHECK(n == ARES_GETSOCK_MAXNUM, "harness"); socks[0] = 21; socks[1] = 22; return g_getsock_mask; }
struct timeval *ares_timeout(ares_channel ch, struct timeval *maxtv, struct timeval *tv) { (void)ch; (void)maxtv; if (nd_bool()) return NULL; tv->tv_sec = 1; tv->tv_usec = 0; return tv; }
void ares_freeaddrinfo(struct ares_addrinfo *ai) { (void)ai; g_free_calls++; }
void ares_destroy(ares_channel ch) { (void)ch; g_destroy_calls++; if (g_query_pending) { g_query_pending = false; g_cb(g_cb_arg, ARES_EDESTRUCTION, 0, NULL); } }
const char *ares_strerror(int c) { (void)c; return "e"; }
int ares_library_init(int f) { (void)f; return 0; }

/* c-ares' own macro shifts a signed 1 by up to 31 (socket 15): not XCM's code; use the unsigned equivalent */
#undef ARES_GETSOCK_WRITABLE
#define ARES_GETSOCK_WRITABLE(bits, num) ((bits) & (1u << ((num) + ARES_GETSOCK_MAXNUM)))
#undef ARES_GETSOCK_READABLE
#define ARES_GETSOCK_READABLE(bits, num) ((bits) & (1u << (num)))
#include "xcm_dns_cares.c"

static void nd_env(void)
{
    g_complete_at = (int)nd_range(0, 9); if (g_complete_at > 4) g_complete_at = 9;
    g_status = nd_bool() ? ARES_SUCCESS : (nd_bool() ? ARES_ENOTFOUND : ARES_ETIMEOUT);
    g_n_answers = (int)nd_range(1, NADDR);
    for (int i = 0; i < NADDR; i++) g_fam[i] = nd_bool() ? AF_INET : AF_INET6;
    g_getsock_mask = (int)nd_range(0, 3) | ((int)nd_range(0, 3) << ARES_GETSOCK_MAXNUM);   /* readable/writable bits of sockets 0,1 */
    g_init_rc = ARES_SUCCESS;
}

#ifdef OP_SYNC
int main(void)
{
    nd_env();
    ASSUME(g_complete_at <= 2);                 /* the resolver answers - one way or the other - within two rounds */
    g_xpoll_fail = nd_bool(); g_tm_fail = nd_bool(); g_overall_expired = false;
    struct xcm_addr_host host; host.type = xcm_addr_type_name; host.name[0] = 'h'; host.name[1] = 0;
    errno = 0;
    int rc = xcm_dns_resolve_sync(&host, NULL);
    if (rc == 0) {
	CHECK(g_status == ARES_SUCCESS && host.type == xcm_addr_type_ip, "C13: success only if the resolver produced an address");
	CHECK(host.ip.family == g_fam[0] && (g_fam[0] == AF_INET ? host.ip.addr.ip4 == 100 : host.ip.addr.ip6[0] == 100), "C13: the first address of the resolver's answer is used");
	WITNESS(g_poll_calls == 2, "answer arrived in the second round");
    } else {
	CHECK(g_status != ARES_SUCCESS || g_xpoll_fail || g_tm_fail, "C13: resolution fails only if the resolver failed (or resources ran out)");
	if (!g_xpoll_fail && !g_tm_fail) CHECK(errno == ENOENT, "C13: an unresolvable name is reported as ENOENT");
	WITNESS(g_status == ARES_ENOTFOUND && !g_xpoll_fail && !g_tm_fail, "unresolvable name");
    }
    CHECK(g_xpoll_destroy == (g_xpoll_fail ? 0 : 1), "C08: the private xpoll of the synchronous resolver is destroyed on every path");
    if (!g_xpoll_fail && !g_tm_fail) CHECK(g_destroy_calls == 1 && g_tm_destroy == 1, "C08: the query (c-ares channel, timers) is released on every path");
    CHECK(g_reg_live == 0, "C08: no descriptor registration is left behind");
    return 0;
}
#endif

#ifdef OP_PROCESS
/* one xcm_dns_query_process() step of an asynchronous query */
int main(void)
{
    nd_env(); g_tm_fail = false;
    struct xcm_dns_query *q = xcm_dns_resolve("h", (struct xpoll *)&xp_token, 3.0, NULL);
    ASSUME(q != NULL);
    CHECK(g_sched_calls >= 1, "C13: the overall dns.timeout timer is armed when the query starts");
    enum query_state s0 = q->state;
    g_overall_expired = nd_bool();
    xcm_dns_query_process(q);
    enum query_state s1 = q->state;
    if (s0 != query_state_in_progress) CHECK(s1 == s0, "C13: a completed query is final");
    if (s1 == query_state_successful) {
	CHECK(g_status == ARES_SUCCESS && q->ips_len == g_n_answers, "C13: the answer holds all addresses the resolver returned");
	for (int i = 0; i < NADDR; i++) if (i < q->ips_len) CHECK(q->ips[i].family == g_fam[i] && (g_fam[i] == AF_INET ? q->ips[i].addr.ip4 == (in_addr_t)(100 + i) : q->ips[i].addr.ip6[0] == 100 + i), "C13: ... in the resolver's order, each with its family");
	CHECK(g_free_calls == 1, "C08: the c-ares result is freed");
    }
    if (s1 == query_state_failed) CHECK((g_status != ARES_SUCCESS && !g_query_pending) || g_overall_expired, "C13: a query fails only if the resolver failed or dns.timeout expired");
    if (s0 == query_state_in_progress && g_overall_expired && s1 != query_state_successful) CHECK(s1 == query_state_failed, "C13: a silent resolver is given up after dns.timeout (ENOENT)");
    /* wake-up invariant */
    if (s1 == query_state_in_progress) {
	int want = 0; for (int i = 0; i < 2; i++) if ((g_getsock_mask >> i) & 1 || (g_getsock_mask >> (i + ARES_GETSOCK_MAXNUM)) & 1) want++;
	CHECK(g_reg_live == want, "C04: while the query is in progress exactly c-ares' own sockets are registered (their readiness wakes the application)");
	for (int k = 0; k < 4; k++) if (k < g_reg_live) { int i = g_reg_fd[k] - 21; CHECK(g_reg_ev[k] == ((((g_getsock_mask >> i) & 1) ? EPOLLIN : 0) | (((g_getsock_mask >> (i + ARES_GETSOCK_MAXNUM)) & 1) ? EPOLLOUT : 0)), "C04,C16: ... for exactly the events c-ares asked for"); }
    } else {
	CHECK(g_reg_live == 0, "C16: a completed query watches no descriptor");
	CHECK(q->ares_timer_id >= 0 && g_live[q->ares_timer_id] && g_last_sched == 0, "C04: a completed query arms an immediate timer so that the application is woken to pick up the result");
    }
    int n = xcm_dns_query_result(q, (struct xcm_addr_ip[4]){ {0} }, 4);
    if (s1 == query_state_in_progress) CHECK(n == -1 && errno == EAGAIN, "C05: an unfinished query reports EAGAIN");
    if (s1 == query_state_failed) CHECK(n == -1 && errno == ENOENT, "C13: resolver failure or timeout is ENOENT");
    if (s1 == query_state_successful) CHECK(n == q->ips_len, "C13: all addresses are handed on");
    bool owner = nd_bool();
    xcm_dns_query_destroy(q, owner);
    CHECK(g_destroy_calls == 1 && g_tm_destroy == 1 && g_tm_destroy_owner == owner, "C08: the c-ares channel and the timer manager are released, with the same ownership");
    if (owner) CHECK(g_reg_live == 0, "C08: the owner removes every registration");
    WITNESS(s1 == query_state_failed && g_overall_expired && g_query_pending == false, "failed");
    WITNESS(s1 == query_state_successful && g_n_answers == NADDR, "three addresses resolved");
    return 0;
}
#endif

#ifdef OP_LIFE
int main(void)
{
    nd_env(); g_tm_fail = nd_bool(); g_init_rc = nd_bool() ? ARES_SUCCESS : ARES_EFILE;
    struct xcm_dns_query *q = xcm_dns_resolve("h", (struct xpoll *)&xp_token, nd_bool() ? 0.0 : 2.0, NULL);
    if (q == NULL) {
	CHECK(g_tm_fail || g_init_rc != ARES_SUCCESS, "C08: starting a query fails only if a resource could not be had");
	CHECK(g_tm_destroy == (g_tm_fail ? 0 : 1) && g_reg_live == 0, "C08: a query that could not be started leaves nothing behind");
	WITNESS(!g_tm_fail, "resolver configuration unreadable");
    } else { xcm_dns_query_destroy(q, true); CHECK(g_reg_live == 0 && g_tm_destroy == 1 && g_destroy_calls == 1, "C08: everything released"); }
    return 0;
}
#endif
