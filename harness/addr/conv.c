/* libxcm/tp/common/common_tp.c (GEN_ADDR_CONV transport-to-transport rewrites) and
 * libxcm/core/xcm_addr_compat.c (the older per-family API), real, over mocks of
 * xcm_addr_parse_<proto>/xcm_addr_make_<proto> (whose own behaviour the addr.*
 * obligations decide): the wrappers add nothing and lose nothing - a failure of
 * the parser or of the formatter is a failure of the wrapper with the same
 * errno, host and port are handed over unchanged, the *right* transport's
 * parser/formatter is used, a DNS name (resp. an IPv6 address) is refused with
 * EINVAL by the IP-only (resp. IPv4-only) variants.  Serves C12.
 *  -DOP_CONV | OP_COMPAT
 */
#include "stubs.h"
#include <errno.h>
#include <string.h>
#include <netinet/in.h>
#include "xcm_addr.h"

enum { P_TCP, P_TLS, P_UTLS, P_SCTP, P_BTCP, P_BTLS, P_UX, P_UXF, P_N };
static int g_parse_calls, g_make_calls, g_parse_proto = -1, g_make_proto = -1;
static const char *g_parse_arg; static char *g_make_buf; static size_t g_make_cap;
static bool g_parse_fails, g_make_fails; static int g_parse_errno, g_make_errno;
static struct xcm_addr_host g_host; static uint16_t g_port;           /* what the parser yields */
static struct xcm_addr_host g_made_host; static uint16_t g_made_port; /* what the formatter was given */
static int m_parse(int p, const char *a, struct xcm_addr_host *h, uint16_t *port)
{ g_parse_calls++; g_parse_proto = p; g_parse_arg = a; if (g_parse_fails) { errno = g_parse_errno; return -1; } *h = g_host; *port = g_port; return 0; }
static int m_make(int p, const struct xcm_addr_host *h, uint16_t port, char *buf, size_t cap)
{ g_make_calls++; g_make_proto = p; g_made_host = *h; g_made_port = port; g_make_buf = buf; g_make_cap = cap; if (g_make_fails) { errno = g_make_errno; return -1; } if (cap > 0) buf[0] = 0; return 0; }
#define GEN(name, P) \
    int xcm_addr_parse_##name(const char *a, struct xcm_addr_host *h, uint16_t *port) { return m_parse(P, a, h, port); } \
    int xcm_addr_make_##name(const struct xcm_addr_host *h, uint16_t port, char *b, size_t c) { return m_make(P, h, port, b, c); }
GEN(tcp, P_TCP) GEN(tls, P_TLS) GEN(utls, P_UTLS) GEN(sctp, P_SCTP) GEN(btcp, P_BTCP) GEN(btls, P_BTLS)
static int g_ux_calls; static const char *g_ux_in; static char *g_ux_out; static size_t g_ux_cap; static int g_ux_rc;
int xcm_addr_parse_ux(const char *a, char *n, size_t c) { g_ux_calls++; g_ux_in = a; g_ux_out = n; g_ux_cap = c; return g_ux_rc; }
int xcm_addr_make_ux(const char *n, char *a, size_t c) { g_ux_calls++; g_ux_in = n; g_ux_out = a; g_ux_cap = c; return g_ux_rc; }

#include "common_tp.c"
#include "xcm_addr_compat.c"

static void nd_env(void)
{
    g_parse_fails = nd_bool(); g_make_fails = nd_bool();
    g_parse_errno = nd_bool() ? EINVAL : ENAMETOOLONG; g_make_errno = nd_bool() ? ENAMETOOLONG : EINVAL;
    g_host.type = nd_bool() ? xcm_addr_type_name : xcm_addr_type_ip;
    if (g_host.type == xcm_addr_type_name) { g_host.name[0] = 'h'; g_host.name[1] = (char)nd_u8(); g_host.name[2] = 0; }
    else { g_host.ip.family = nd_bool() ? AF_INET : AF_INET6; g_host.ip.addr.ip4 = nd_u32(); }
    g_port = nd_u16();
}
static bool same_host(const struct xcm_addr_host *a, const struct xcm_addr_host *b)
{
    if (a->type != b->type) return false;
    if (a->type == xcm_addr_type_name) return a->name[0] == b->name[0] && a->name[1] == b->name[1] && a->name[2] == b->name[2];
    return a->ip.family == b->ip.family && a->ip.addr.ip4 == b->ip.addr.ip4;
}

#ifdef OP_CONV
typedef int (*conv_fn)(const char *, char *, size_t);
int main(void)
{
    static const struct { conv_fn f; int from, to; } T[] = {
	{ btcp_to_tcp, P_BTCP, P_TCP }, { tcp_to_btcp, P_TCP, P_BTCP }, { btcp_to_btls, P_BTCP, P_BTLS }, { btls_to_btcp, P_BTLS, P_BTCP },
	{ btls_to_tls, P_BTLS, P_TLS }, { tls_to_btls, P_TLS, P_BTLS }, { utls_to_tls, P_UTLS, P_TLS }, { tls_to_utls, P_TLS, P_UTLS } };
    nd_env();
    int k = (int)nd_range(0, 7);
    char out[8]; size_t cap = (size_t)nd_range(0, 8);
    errno = 0;
    int rc;
    switch (k) {        /* direct calls: no function-pointer case split needed */
    case 0: rc = btcp_to_tcp("in", out, cap); break; case 1: rc = tcp_to_btcp("in", out, cap); break;
    case 2: rc = btcp_to_btls("in", out, cap); break; case 3: rc = btls_to_btcp("in", out, cap); break;
    case 4: rc = btls_to_tls("in", out, cap); break; case 5: rc = tls_to_btls("in", out, cap); break;
    case 6: rc = utls_to_tls("in", out, cap); break; default: rc = tls_to_utls("in", out, cap); break;
    }
    int e = errno;
    CHECK(g_parse_calls == 1 && g_parse_proto == T[k].from, "C12: a conversion parses its input with the SOURCE transport's parser (so only that transport's prefix is accepted)");
    if (g_parse_fails) { CHECK(rc == -1 && e == g_parse_errno && g_make_calls == 0, "C12: an address the parser refuses is refused by the conversion, errno kept, nothing written"); return 0; }
    CHECK(g_make_calls == 1 && g_make_proto == T[k].to, "C12: ... and formats with the TARGET transport's formatter");
    CHECK(same_host(&g_made_host, &g_host) && g_made_port == g_port, "C12: host and port are carried over unchanged");
    CHECK(g_make_buf == out && g_make_cap == cap, "C12: the caller's buffer and capacity are passed on (nothing is written beyond capacity)");
    CHECK((rc < 0) == g_make_fails, "C12: a result that does not fit is a failure of the conversion - never a truncated address reported as success");
    if (rc < 0) CHECK(rc == -1 && e == g_make_errno, "C12: ... with the formatter's errno");
    WITNESS(rc < 0 && !g_parse_fails, "converted address does not fit the buffer");
    return 0;
}
#endif

#ifdef OP_COMPAT
int main(void)
{
    nd_env();
    int k = (int)nd_range(0, 3);
    static const int P[4] = { P_UTLS, P_TLS, P_TCP, P_SCTP };
    int what = (int)nd_range(0, 3);
    errno = 0;
    if (what == 0) {            /* <proto>6_parse: IP only */
	struct xcm_addr_ip ip; uint16_t port = 0; ip.family = 0; ip.addr.ip4 = 0;
	int rc = k == 0 ? xcm_addr_utls6_parse("in", &ip, &port) : k == 1 ? xcm_addr_tls6_parse("in", &ip, &port) : k == 2 ? xcm_addr_tcp6_parse("in", &ip, &port) : xcm_addr_sctp6_parse("in", &ip, &port);
	int e = errno;
	CHECK(g_parse_calls == 1 && g_parse_proto == P[k], "C12: the per-family parser delegates to the same transport's parser");
	if (g_parse_fails) CHECK(rc == -1 && e == g_parse_errno, "C12: refused input stays refused");
	else if (g_host.type == xcm_addr_type_name) CHECK(rc == -1 && e == EINVAL, "C12: the IP-only API refuses a DNS name with EINVAL");
	else CHECK(rc == 0 && ip.family == g_host.ip.family && ip.addr.ip4 == g_host.ip.addr.ip4 && port == g_port, "C12: address and port are handed over unchanged");
	WITNESS(rc == -1 && !g_parse_fails, "name refused by the IP-only parser");
    } else if (what == 1) {     /* <proto>_parse: IPv4 only */
	in_addr_t ip4 = 0; uint16_t port = 0;
	ASSUME(k < 3);
	int rc = k == 0 ? xcm_addr_utls_parse("in", &ip4, &port) : k == 1 ? xcm_addr_tls_parse("in", &ip4, &port) : xcm_addr_tcp_parse("in", &ip4, &port);
	int e = errno;
	CHECK(g_parse_calls == 1 && g_parse_proto == P[k], "C12: the IPv4 parser delegates to the same transport's parser");
	if (g_parse_fails) CHECK(rc == -1 && e == g_parse_errno, "C12: refused input stays refused");
	else if (g_host.type == xcm_addr_type_name || g_host.ip.family != AF_INET) CHECK(rc == -1 && e == EINVAL, "C12: the IPv4-only API refuses names and IPv6 addresses with EINVAL");
	else CHECK(rc == 0 && ip4 == g_host.ip.addr.ip4 && port == g_port, "C12: IPv4 address and port are handed over unchanged");
    } else if (what == 2) {     /* <proto>6_make */
	struct xcm_addr_ip ip; ip.family = nd_bool() ? AF_INET : AF_INET6; ip.addr.ip4 = nd_u32();
	uint16_t port = nd_u16(); char out[8]; size_t cap = (size_t)nd_range(0, 8);
	int rc = k == 0 ? xcm_addr_utls6_make(&ip, port, out, cap) : k == 1 ? xcm_addr_tls6_make(&ip, port, out, cap) : k == 2 ? xcm_addr_tcp6_make(&ip, port, out, cap) : xcm_addr_sctp6_make(&ip, port, out, cap);
	CHECK(g_make_calls == 1 && g_make_proto == P[k] && g_made_host.type == xcm_addr_type_ip && g_made_host.ip.family == ip.family && g_made_host.ip.addr.ip4 == ip.addr.ip4 && g_made_port == port && g_make_buf == out && g_make_cap == cap,
	      "C12: the per-family formatter delegates to the same transport's formatter with address, port, buffer and capacity unchanged");
	CHECK((rc < 0) == g_make_fails, "C12: ... and returns its verdict (no truncated success)");
    } else {                    /* ux */
	char out[8]; size_t cap = (size_t)nd_range(0, 8); g_ux_rc = nd_bool() ? 0 : -1;
	int rc = nd_bool() ? xcm_addr_ux_parse("in", out, cap) : xcm_addr_ux_make("in", out, cap);
	CHECK(g_ux_calls == 1 && g_ux_out == out && g_ux_cap == cap && rc == g_ux_rc, "C12: the UX wrappers pass buffer, capacity and result through");
    }
    return 0;
}
#endif
