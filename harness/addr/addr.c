/* libxcm/core/xcm_addr.c (+ xcm_dns.c): address make/parse over the LIBC-STR
 * models.  Serves C12.
 *
 * -DOP_PARSE_HP -DPROTO=\"tcp\" -DPFUN=xcm_addr_parse_tcp -DNTAIL=n
 *       parser of a host:port transport on  PROTO ':' <NTAIL arbitrary bytes>
 * -DOP_PARSE_UX -DPROTO=\"ux\" -DPFUN=xcm_addr_parse_ux -DNTAIL=n
 * -DOP_MAKE_HP  -DPROTO=.. -DMFUN=xcm_addr_make_tcp -DPFUN=xcm_addr_parse_tcp   make + round trip
 * -DOP_MAKE_UX  -DPROTO=.. -DMFUN=xcm_addr_make_ux -DPFUN=xcm_addr_parse_ux
 * -DOP_PROTO    xcm_addr_parse_proto with every capacity
 */
#include "stubs.h"
#define STR_MAX 40
#include "libc_str.h"

/* map the libc names used by xcm_addr.c / xcm_dns.c onto the models */
#include <arpa/inet.h>
#include <ctype.h>
#include <regex.h>
#undef isspace
#define isspace(c) m_isspace(c)
#define strtol(s, e, b) m_strtol10(s, e)
#define snprintf m_snprintf
#define inet_pton(af, s, d) m_inet_pton(af, s, d)
#define inet_ntop(af, s, d, n) m_inet_ntop(af, s, d, n)
#define regcomp(re, pat, fl) m_regcomp(re, pat, fl)
#define regexec(re, s, n, m, fl) m_regexec(re, s)
#define regfree(re) ((void)0)
/* CBMC 6.11 does not apply the default argument promotions to a uint16_t
 * passed through "...": give ntohs/htons an int-sized result (same value) */
static unsigned m_swap16(unsigned v) { return ((v & 0xffu) << 8) | ((v >> 8) & 0xffu); }
#undef ntohs
#undef htons
#define ntohs(x) m_swap16((uint16_t)(x))
#define htons(x) m_swap16((uint16_t)(x))

/* IPv6 text form is opaque: inet_ntop produces a token of any length 2..45
 * over [0-9a-f:], inet_pton accepts exactly the token last produced (yielding
 * the same address) and otherwise answers arbitrarily (but never for "*") */
static char g_ip6_text[46]; static uint8_t g_ip6_addr[16]; static bool g_ip6_known;
/* the answer for the last string asked about is remembered (inet_pton is a function) */
static char g_q_text[STR_MAX + 1]; static uint8_t g_q_addr[16]; static int g_q_ans = -1;
static int m_inet_pton(int af, const char *s, void *dst)
{
    if (af == AF_INET) return m_inet_pton4(s, dst);
    if (g_ip6_known && strcmp(s, g_ip6_text) == 0) { memcpy(dst, g_ip6_addr, 16); return 1; }
    if (s[0] == '\0' || strcmp(s, "*") == 0) return 0;
    if (g_q_ans >= 0 && strcmp(s, g_q_text) == 0) { if (g_q_ans) memcpy(dst, g_q_addr, 16); return g_q_ans; }
    g_q_ans = nd_bool() ? 1 : 0;
    strncpy(g_q_text, s, STR_MAX);
    if (g_q_ans) { for (int i = 0; i < 16; i++) g_q_addr[i] = nd_u8(); memcpy(dst, g_q_addr, 16); }
    return g_q_ans;
}
#ifndef IP6_TEXT_MAX
#define IP6_TEXT_MAX 45
#endif
static const char *m_inet_ntop(int af, const void *src, char *dst, socklen_t size)
{
    if (af == AF_INET) return m_inet_ntop4(src, dst, size);
    size_t n = (size_t)nd_range(2, IP6_TEXT_MAX);
    if (n + 1 > size) { errno = ENOSPC; return NULL; }
    for (size_t i = 0; i < IP6_TEXT_MAX; i++)
	if (i < n) { char c = nd_bool() ? ':' : (char)('a' + nd_range(0, 5)); dst[i] = c; }
    dst[n] = '\0';
    memcpy(g_ip6_text, dst, n + 1); memcpy(g_ip6_addr, src, 16); g_ip6_known = true;
    return dst;
}
static int m_regcomp(regex_t *re, const char *pat, int fl)
{
    (void)re;
    CHECK(strcmp(pat, M_DNS_RE) == 0 && fl == (REG_ICASE | REG_EXTENDED), "harness: the DNS-name regular expression in xcm_dns.c is the one the model implements");
    return 0;
}
static int m_regexec(const regex_t *re, const char *s) { (void)re; return m_dns_re_match(s) ? 0 : REG_NOMATCH; }
const struct in6_addr in6addr_any;   /* all zero, as in libc */
void ut_mem_exhausted(void) { abort(); }
void ut_fatal(void) { abort(); }

#include "xcm_dns.c"
#include "xcm_addr.c"

#undef snprintf
#undef strtol

#ifndef NTAIL
#define NTAIL 8
#endif
#define PLEN (sizeof(PROTO) - 1)

/* ---- reference: the documented syntax ------------------------------------ */
static bool ref_has_space(const char *s) { for (size_t i = 0; s[i]; i++) if (m_isspace((unsigned char)s[i])) return true; return false; }

/* port: 1..5 decimal digits, value 0..65535 */
static bool ref_port(const char *p, unsigned *out)
{
    unsigned v = 0; size_t n = 0;
    for (; p[n]; n++) {
	if (!m_isdigit((unsigned char)p[n]) || n >= 5) return false;
	v = v * 10 + (unsigned)(p[n] - '0');
    }
    if (n == 0 || v > 65535) return false;
    *out = v;
    return true;
}

#ifdef OP_PARSE_HP
static bool m_isdigit_all(const char *p) { if (*p == 0) return false; for (size_t i = 0; i < NTAIL; i++) { if (p[i] == 0) return true; if (p[i] < '0' || p[i] > '9') return false; } return true; }
int main(void)
{
    char in[PLEN + 1 + NTAIL + 1];
    memcpy(in, PROTO ":", PLEN + 1);
    for (size_t i = 0; i < NTAIL; i++) in[PLEN + 1 + i] = (char)nd_u8();
#ifdef FIXHOST
    /* long port fields: the host is the fixed name "a", everything after "a:" is arbitrary */
    in[PLEN + 1] = 'a'; in[PLEN + 2] = ':';
#endif
    in[PLEN + 1 + NTAIL] = '\0';
    struct xcm_addr_host host; uint16_t port = 0;
    memset(&host, 0, sizeof(host));
    errno = 0;
    int rc = PFUN(in, &host, &port);
    int e = errno;
    CHECK(rc == 0 || (rc == -1 && e == EINVAL), "C12: parser returns 0, or -1 with EINVAL");

    /* reference decision on the documented syntax */
    const char *rest = in + PLEN + 1;
    size_t rl = strlen(rest);
    bool ok = !ref_has_space(in);
    long colon = -1;
    for (size_t i = 0; i < NTAIL; i++) if (i < rl && rest[i] == ':') colon = (long)i;
    unsigned refport = 0;
    char hostbuf[NTAIL + 1];
    memset(hostbuf, 0, sizeof(hostbuf));
    bool is6 = false, is4 = false, isname = false, wild4 = false, wild6 = false;
    uint32_t ip4 = 0;
    if (colon <= 0) ok = false;           /* a last ':' and a non-empty host before it */
    if (ok) {
	ok = ref_port(rest + colon + 1, &refport);
	for (long i = 0; i < (long)NTAIL; i++) if (i < colon) hostbuf[i] = rest[i];
    }
    if (ok) {
	size_t hl = (size_t)colon;
	if (hostbuf[0] == '[') {
	    if (hl >= 2 && hostbuf[hl - 1] == ']') {
		is6 = true;
		wild6 = (hl == 3 && hostbuf[1] == '*');
	    } else ok = false;
	} else if (hl == 1 && hostbuf[0] == '*') wild4 = true;
	else if (m_inet_pton4(hostbuf, &ip4) == 1) is4 = true;
	else if (m_dns_re_match(hostbuf)) isname = true;
	else ok = false;
    }
    if (rc == 0) {
	CHECK(ok, "C12: accepted input has the documented syntax proto:host:port (port = 1-5 decimal digits <= 65535; host = *, [*], [v6], dotted quad or DNS name; no white space)");
	CHECK(port == htons((uint16_t)refport), "C12: port is returned in network byte order and equals the decimal number written");
	if (wild4) CHECK(host.type == xcm_addr_type_ip && host.ip.family == AF_INET && host.ip.addr.ip4 == INADDR_ANY, "C12: '*' is the IPv4 wildcard");
	if (is4) CHECK(host.type == xcm_addr_type_ip && host.ip.family == AF_INET && host.ip.addr.ip4 == ip4, "C12: dotted quad parsed to that address");
	if (isname) CHECK(host.type == xcm_addr_type_name && strcmp(host.name, hostbuf) == 0, "C12: DNS name returned unaltered");
	if (is6) CHECK(host.type == xcm_addr_type_ip && host.ip.family == AF_INET6, "C12: bracketed host is IPv6");
	if (wild6) { for (int i = 0; i < 16; i++) CHECK(host.ip.addr.ip6[i] == 0, "C12: '[*]' is the IPv6 wildcard"); }
#if NTAIL >= 7
	WITNESS(isname && refport == 65535, "DNS name with port 65535 accepted");
#else
	WITNESS(isname && refport > 99, "DNS name with a 3-digit port accepted");
#endif
#if NTAIL >= 9 && !defined(FIXHOST)
	WITNESS(is4, "dotted quad accepted");
#endif
#ifndef FIXHOST
	WITNESS(is6 && !wild6, "IPv6 literal accepted");
#endif
    } else if (!is6 || wild6)
	CHECK(!ok, "C12: input with the documented syntax is accepted");
#ifdef FIXHOST
    if (rc != 0) WITNESS(colon == 1 && rl == NTAIL && m_isdigit_all(rest + 2), "a port field of 12 decimal digits is refused");
#endif
    return 0;
}
#endif

#ifdef OP_VALID_HP
/* xcm_addr_is_valid(s) <=> the transport's own parser accepts s */
int main(void)
{
    char in[PLEN + 1 + NTAIL + 1];
    memcpy(in, PROTO ":", PLEN + 1);
    for (size_t i = 0; i < NTAIL; i++) in[PLEN + 1 + i] = (char)nd_u8();
    in[PLEN + 1 + NTAIL] = '\0';
    struct xcm_addr_host host; uint16_t port = 0;
    int rc = PFUN(in, &host, &port);
    bool v = xcm_addr_is_valid(in);
    CHECK(v == (rc == 0), "C12: xcm_addr_is_valid agrees with the transport's parser");
    WITNESS(v, "valid address");
    WITNESS(!v, "invalid address");
    return 0;
}
#endif

#ifdef OP_PARSE_UX
#ifndef CAPMAX
#define CAPMAX (NTAIL + 2)
#endif
int main(void)
{
    char in[PLEN + 1 + NTAIL + 1];
    memcpy(in, PROTO ":", PLEN + 1);
    for (size_t i = 0; i < NTAIL; i++) in[PLEN + 1 + i] = (char)nd_u8();
    in[PLEN + 1 + NTAIL] = '\0';
    size_t cap = (size_t)nd_range(0, CAPMAX);
    char out[CAPMAX + 1];
    memset(out, 0x55, sizeof(out));
    errno = 0;
    int rc = PFUN(in, out, cap);
    int e = errno;
    const char *name = in + PLEN + 1;
    size_t nl = strlen(name);
    bool ok = !ref_has_space(in) && nl >= 1 && nl <= 107;
    for (size_t i = 0; i <= CAPMAX; i++)
	if (i >= cap) CHECK(out[i] == 0x55, "C12: parser never writes beyond the capacity given");
    if (rc == 0) {
	CHECK(ok, "C12: accepted UX/UXF address has a name of 1..107 bytes without white space");
	CHECK(nl < cap, "C12: success only if name and terminator fit the capacity");
	CHECK(strcmp(out, name) == 0, "C12: name returned unaltered");
	WITNESS(nl == (NTAIL < 107 ? NTAIL : 107), "longest name in the bound accepted");
    } else {
	CHECK(rc == -1 && (e == EINVAL || e == ENAMETOOLONG), "C12: parser fails with EINVAL or ENAMETOOLONG");
	if (ok) CHECK(e == ENAMETOOLONG && nl >= cap, "C12: a well-formed address is refused only when the output buffer is too small");
	WITNESS(ok && e == ENAMETOOLONG, "well-formed name refused for lack of capacity");
    }
#ifdef WITH_VALID
    if (cap > NTAIL)
	CHECK(xcm_addr_is_valid(in) == ok, "C12: xcm_addr_is_valid agrees with the documented syntax");
#endif
    return 0;
}
#endif

#ifdef OP_VALID_UXLEN
/* xcm_addr_is_valid / xcm_addr_is_supported at the UX/UXF name limit: one CONSTANT address per obligation (PROTO ":" UXNAME,
 * names of 106, 107, 108 bytes).  is_valid tries every transport's parser and each parser calls strlen in its loop conditions:
 * over a symbolic string of this length, or even a symbolic length alone, the SAT solver runs out of 12 GB; on a string
 * literal CBMC folds the whole computation. */
int main(void)
{
    static const char in[] = PROTO ":" UXNAME;
    size_t L = sizeof(UXNAME) - 1;
    char name[120];
    int prc = PFUN(in, name, sizeof(name));
    CHECK((prc == 0) == (L <= 107), "C12: UX/UXF names up to 107 bytes are accepted by the parser, longer ones refused");
    CHECK(xcm_addr_is_valid(in) == (prc == 0), "C12: xcm_addr_is_valid agrees with the parser at the name limit (an address make/parse accept is valid)");
    CHECK(xcm_addr_is_supported(in) == (prc == 0), "C12: ... and so does xcm_addr_is_supported for the always-built UX transports");
    return 0;
}
#endif

#ifdef OP_PROTO
int main(void)
{
    char in[NTAIL + 1];
    for (size_t i = 0; i < NTAIL; i++) in[i] = (char)nd_u8();
    in[NTAIL] = '\0';
    size_t cap = (size_t)nd_range(0, NTAIL + 2);
    char out[NTAIL + 3];
    memset(out, 0x55, sizeof(out));
    errno = 0;
    int rc = xcm_addr_parse_proto(in, out, cap);
    int e = errno;
    for (size_t i = 0; i < NTAIL + 3; i++)
	if (i >= cap) CHECK(out[i] == 0x55, "C12: xcm_addr_parse_proto never writes beyond the capacity given");
    if (rc == 0) {
	size_t pl = strlen(out);
	CHECK(pl < cap && in[pl] == ':' && memcmp(in, out, pl) == 0, "C12: protocol = the bytes before the first ':'");
	for (size_t i = 0; i < NTAIL; i++) if (i < pl) CHECK(in[i] != ':', "C12: first ':'");
	WITNESS(pl + 1 == cap, "protocol exactly fills the buffer");
    } else
	CHECK(rc == -1 && (e == EINVAL || e == ENAMETOOLONG), "C12: fails with EINVAL or ENAMETOOLONG");
    return 0;
}
#endif

#ifdef OP_MAKE_HP
#ifndef NAMEMAX
#define NAMEMAX 5
#endif
#ifndef OUTMAX
#define OUTMAX (IP6_TEXT_MAX + 16)
#endif
int main(void)
{
    struct xcm_addr_host host;
    memset(&host, 0, sizeof(host));
    int kind = KIND;   /* host kind is concrete per obligation: 0 name, 1 IPv4, 2 IPv6 */
    char expect_host[64];
    if (kind == 0) {
	host.type = xcm_addr_type_name;
	size_t nl = (size_t)nd_range(1, NAMEMAX);
	for (size_t i = 0; i < NAMEMAX; i++) host.name[i] = i < nl ? (char)nd_u8() : '\0';
	host.name[NAMEMAX] = '\0';
	/* a valid DNS name that is not also an IPv4 literal */
	uint32_t dummy;
	ASSUME(strlen(host.name) == nl && m_dns_re_match(host.name) && m_inet_pton4(host.name, &dummy) != 1);
	strcpy(expect_host, host.name);
    } else if (kind == 1) {
	host.type = xcm_addr_type_ip; host.ip.family = AF_INET; host.ip.addr.ip4 = nd_u32();
#ifdef ROUNDTRIP
	/* the round trip over all 2^32 addresses x 65536 ports did not finish in 3000 s: first and last octet (the ones next to the
	   delimiters) arbitrary, the two middle octets fixed; addr.make.*.ipv4 covers all addresses for the formatter */
	ASSUME(((const uint8_t *)&host.ip.addr.ip4)[1] == 10 && ((const uint8_t *)&host.ip.addr.ip4)[2] == 200);
#endif
	m_inet_ntop4(&host.ip.addr.ip4, expect_host, sizeof(expect_host));
    } else {
	host.type = xcm_addr_type_ip; host.ip.family = AF_INET6;
	for (int i = 0; i < 16; i++) host.ip.addr.ip6[i] = nd_u8();
    }
    uint16_t port = nd_u16();           /* network byte order, all 65536 values */
    size_t cap = (size_t)nd_range(0, OUTMAX);
    char out[OUTMAX + 1];
    memset(out, 0x55, sizeof(out));
    errno = 0;
    int rc = MFUN(&host, port, out, cap);
    int e = errno;
    if (kind == 2) { expect_host[0] = '['; strcpy(expect_host + 1, g_ip6_text); strcat(expect_host, "]"); }
    char expect[OUTMAX + 40];
    int need = m_snprintf(expect, sizeof(expect), "%s:%s:%u", PROTO, expect_host, (unsigned)ntohs(port));
    for (size_t i = 0; i <= OUTMAX; i++)
	if (i >= cap) CHECK(out[i] == 0x55, "C12: make never writes beyond the capacity given");
    if (rc == 0) {
	CHECK((size_t)need < cap, "C12: success only if the complete address and its terminator fit the capacity (never a truncated string reported as success)");
	CHECK(strcmp(out, expect) == 0, "C12: the address written is proto:host:port, complete and NUL-terminated");
#ifdef ROUNDTRIP
	/* round trip */
	struct xcm_addr_host h2; uint16_t p2 = 0;
	memset(&h2, 0, sizeof(h2));
	int prc = PFUN(out, &h2, &p2);
	CHECK(prc == 0, "C12: the made address parses");
	CHECK(p2 == port, "C12: round trip preserves the port");
	CHECK(h2.type == host.type, "C12: round trip preserves the host type");
	if (kind == 0) CHECK(strcmp(h2.name, host.name) == 0, "C12: round trip preserves the name");
	if (kind == 1) CHECK(h2.ip.family == AF_INET && h2.ip.addr.ip4 == host.ip.addr.ip4, "C12: round trip preserves the IPv4 address");
	if (kind == 2) CHECK(h2.ip.family == AF_INET6 && memcmp(h2.ip.addr.ip6, host.ip.addr.ip6, 16) == 0, "C12: round trip preserves the IPv6 address");
#endif
#if KIND == 2
	WITNESS((size_t)need + 1 == cap, "IPv6 address exactly fills the buffer");
#elif KIND == 0
	WITNESS(ntohs(port) == 65535, "name host with port 65535");
#else
	WITNESS(ntohs(port) == 65535 && (size_t)need + 1 == cap, "IPv4 host, port 65535, address exactly fills the buffer");
#endif
    } else {
	CHECK(rc == -1 && (e == ENAMETOOLONG || e == EINVAL), "C12: make fails with ENAMETOOLONG or EINVAL");
	CHECK((size_t)need >= cap, "C12: make fails only when the address does not fit");
	WITNESS((size_t)need == cap, "capacity one short of what is needed is refused");
    }
    return 0;
}
#endif

#ifdef OP_MAKE_UX
#ifndef NAMEMAX
#define NAMEMAX 6
#endif
#define OUTMAX (NAMEMAX + 8)
int main(void)
{
    char name[NAMEMAX + 1];
    size_t nl = (size_t)nd_range(0, NAMEMAX);
    for (size_t i = 0; i < NAMEMAX; i++) name[i] = i < nl ? (char)nd_u8() : '\0';
    name[NAMEMAX] = '\0';
    ASSUME(strlen(name) == nl);
    size_t cap = (size_t)nd_range(0, OUTMAX);
    char out[OUTMAX + 1];
    memset(out, 0x55, sizeof(out));
    errno = 0;
    int rc = MFUN(name, out, cap);
    int e = errno;
    size_t need = PLEN + 1 + nl;
    for (size_t i = 0; i <= OUTMAX; i++)
	if (i >= cap) CHECK(out[i] == 0x55, "C12: make never writes beyond the capacity given");
    if (rc == 0) {
	CHECK(need < cap, "C12: success only if the complete address and its terminator fit the capacity (never a truncated string reported as success)");
	CHECK(memcmp(out, PROTO ":", PLEN + 1) == 0 && strcmp(out + PLEN + 1, name) == 0, "C12: the address written is proto:name");
	if (nl >= 1 && !ref_has_space(name)) {
	    char back[NAMEMAX + 2];
	    CHECK(PFUN(out, back, sizeof(back)) == 0 && strcmp(back, name) == 0, "C12: round trip preserves the name");
	}
	WITNESS(need + 1 == cap, "address exactly fills the buffer");
    } else {
	CHECK(rc == -1 && (e == ENAMETOOLONG || e == EINVAL), "C12: make fails with ENAMETOOLONG or EINVAL");
	CHECK(need >= cap || nl > 107, "C12: make fails only when the address does not fit or the name is too long");
	WITNESS(need == cap, "capacity one short of what is needed is refused");
    }
    return 0;
}
#endif
