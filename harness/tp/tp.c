/* libxcm/tp/common/xcm_tp.c (real): the dispatch layer over a mock transport
 * (ops table) and a mock control interface.  Serves C04 (every operation is
 * followed by update when auto_update), C14 (control processing never alters
 * the data path's results), C10/C11 (common attribute getters/setters), C17.
 *
 *  -DOP_DISPATCH | OP_GETTER -DGETTER=fn -DGSIZE=n | OP_SERVICE | OP_LIFE
 */
#include "stubs.h"
#include <errno.h>
#include <string.h>

#include "xcm_tp.h"
#include "ctl.h"

/* ---- mock transport --------------------------------------------------------- */
static int g_seq;                       /* global sequence number of mock calls */
static int g_op_seq = -1, g_update_seq = -1, g_update_calls, g_ctl_calls, g_ctl_seq = -1;
static int g_op_rc, g_op_errno;
static bool g_bytestream;
static char g_str[8];                   /* symbolic string returned by the string-valued ops */
static bool g_str_null;
static int64_t g_cnt_value; static size_t g_max_msg;
static int g_ctl_destroy_calls; static bool g_ctl_destroy_owner; static int g_close_calls, g_cleanup_calls, g_close_seq = -1, g_ctl_destroy_seq = -1;

static int op_result(void)
{
    g_op_seq = g_seq++;
    int mode = (int)nd_range(0, 3);
    g_op_errno = 0;
    if (mode == 0) g_op_rc = (int)nd_range(0, 100);
    else { g_op_rc = -1; g_op_errno = mode == 1 ? EAGAIN : (mode == 2 ? EPIPE : ECONNRESET); errno = g_op_errno; }
    return g_op_rc;
}
static int m_init(struct xcm_socket *s, struct xcm_socket *p) { (void)s; (void)p; return 0; }
static int m_connect(struct xcm_socket *s, const char *a) { (void)s; (void)a; int r = op_result(); return r > 0 ? 0 : r; }
static int m_server(struct xcm_socket *s, const char *a) { (void)s; (void)a; int r = op_result(); return r > 0 ? 0 : r; }
static void m_close(struct xcm_socket *s) { (void)s; g_close_calls++; g_close_seq = g_seq++; }
static void m_cleanup(struct xcm_socket *s) { (void)s; g_cleanup_calls++; g_close_seq = g_seq++; }
static int m_accept(struct xcm_socket *c, struct xcm_socket *s) { (void)c; (void)s; int r = op_result(); return r > 0 ? 0 : r; }
static int m_send(struct xcm_socket *s, const void *b, size_t l) { (void)s; (void)b; (void)l; return op_result(); }
static int m_receive(struct xcm_socket *s, void *b, size_t c) { (void)s; (void)b; (void)c; return op_result(); }
static void m_update(struct xcm_socket *s) { (void)s; g_update_calls++; g_update_seq = g_seq++; }
static int m_finish(struct xcm_socket *s) { (void)s; int r = op_result(); return r > 0 ? 0 : r; }
static const char *m_get_remote_addr(struct xcm_socket *s, bool st) { (void)s; (void)st; return g_str_null ? NULL : g_str; }
static const char *m_get_local_addr(struct xcm_socket *s, bool st) { (void)s; (void)st; return g_str_null ? NULL : g_str; }
static const char *m_get_transport(struct xcm_socket *s) { (void)s; return g_str; }
static size_t m_max_msg(struct xcm_socket *s) { (void)s; return g_max_msg; }
static int64_t m_get_cnt(struct xcm_socket *s, enum xcm_tp_cnt c) { (void)s; (void)c; return g_cnt_value; }
static size_t m_priv_size(enum xcm_socket_type t) { (void)t; return 8; }
static const struct xcm_tp_ops msg_ops = { .init = m_init, .connect = m_connect, .server = m_server, .close = m_close, .cleanup = m_cleanup, .accept = m_accept,
    .send = m_send, .receive = m_receive, .update = m_update, .finish = m_finish, .get_transport = m_get_transport, .get_remote_addr = m_get_remote_addr,
    .get_local_addr = m_get_local_addr, .max_msg = m_max_msg, .get_cnt = m_get_cnt, .priv_size = m_priv_size };
static const struct xcm_tp_ops bs_ops = { .init = m_init, .connect = m_connect, .server = m_server, .close = m_close, .cleanup = m_cleanup, .accept = m_accept,
    .send = m_send, .receive = m_receive, .update = m_update, .finish = m_finish, .get_remote_addr = m_get_remote_addr,
    .get_local_addr = m_get_local_addr, .get_cnt = m_get_cnt, .priv_size = m_priv_size };
static const struct xcm_tp_proto msg_proto = { "mock", &msg_ops }, bs_proto = { "bmock", &bs_ops };

/* ---- mock control interface (its own guarantees are C14's ctl obligations) ---- */
static struct { int d; } ctl_token;
struct ctl *ctl_create(struct xcm_socket *s) { (void)s; return nd_bool() ? (struct ctl *)&ctl_token : NULL; }
void ctl_destroy(struct ctl *c, bool owner) { if (c != NULL) { g_ctl_destroy_calls++; g_ctl_destroy_owner = owner; g_ctl_destroy_seq = g_seq++; } }
void ctl_process(struct ctl *c) { CHECK((void *)c == (void *)&ctl_token, "C14: only the socket's own control interface is processed"); g_ctl_calls++; g_ctl_seq = g_seq++; /* contract: preserves errno */ }

/* xcm.c entry points referenced by the common attributes */
static int g_set_blocking_calls; static bool g_set_blocking_arg;
int xcm_set_blocking(struct xcm_socket *s, bool b) { (void)s; g_set_blocking_calls++; g_set_blocking_arg = b; if (nd_bool()) { errno = EPIPE; return -1; } s->is_blocking = b; return 0; }
const char *xcm_local_addr(struct xcm_socket *s) { return xcm_tp_socket_get_local_addr(s, false); }
const char *xcm_remote_addr(struct xcm_socket *s) { if (s->type != xcm_socket_type_conn) { errno = EINVAL; return NULL; } return xcm_tp_socket_get_remote_addr(s, false); }
/* poisoning mutex stubs for the socket-id counter (C15, see locks/afd_h.c) */
static int g_held, g_lock_calls, g_unlock_calls; static int64_t g_true_next_id;
#define ID_POISON ((int64_t)0x5a5a5a5a5a5a5a5aLL)
static int64_t *next_id_ptr(void);
void ut_mutex_lock(pthread_mutex_t *m) { (void)m; CHECK(g_held == 0, "C15: no double lock"); CHECK(*next_id_ptr() == ID_POISON, "C15: the id counter is not written outside its critical section"); *next_id_ptr() = g_true_next_id; g_held = 1; g_lock_calls++; }
void ut_mutex_unlock(pthread_mutex_t *m) { (void)m; CHECK(g_held == 1, "C15: unlock only what is held"); g_true_next_id = *next_id_ptr(); *next_id_ptr() = ID_POISON; g_held = 0; g_unlock_calls++; }
int xcm_addr_parse_proto(const char *a, char *p, size_t c) { (void)a; (void)p; (void)c; return -1; }

#include "xcm_tp.c"

static int64_t *next_id_ptr(void) { return &next_id; }
static struct xcm_socket sock, server_sock;
static void setup(void)
{
    g_bytestream = nd_bool();
    sock.proto = g_bytestream ? &bs_proto : &msg_proto;
    sock.type = nd_bool() ? xcm_socket_type_conn : xcm_socket_type_server;
    sock.auto_update = true; sock.auto_enable_ctl = nd_bool(); sock.is_blocking = nd_bool();
    sock.ctl = nd_bool() ? (struct ctl *)&ctl_token : NULL;
    sock.skipped_ctl_calls = (uint64_t)nd_range(0, 300);
    size_t n = (size_t)nd_range(0, 6);
    for (size_t i = 0; i < 7; i++) g_str[i] = i < n ? (char)nd_range(1, 127) : 0;
    g_str[7] = 0; g_str_null = nd_bool();
    g_cnt_value = nd_i64(); g_max_msg = nd_size();
}
static char appbuf[8];

#ifdef OP_DISPATCH
int main(void)
{
    setup();
    int op = (int)nd_range(0, 5);
    struct ctl *ctl_before = sock.ctl;
    errno = 0; int rc;
    switch (op) {
    case 0: sock.type = xcm_socket_type_conn; rc = xcm_tp_socket_send(&sock, appbuf, 4); break;
    case 1: sock.type = xcm_socket_type_conn; rc = xcm_tp_socket_receive(&sock, appbuf, 4); break;
    case 2: rc = xcm_tp_socket_finish(&sock); break;
    case 3: rc = xcm_tp_socket_connect(&sock, "x"); break;
    case 4: rc = xcm_tp_socket_server(&sock, "x"); break;
    default:
	server_sock = sock; server_sock.type = xcm_socket_type_server; sock.ctl = NULL; sock.type = xcm_socket_type_conn;
	rc = xcm_tp_socket_accept(&sock, &server_sock); break;
    }
    int e = errno;
    CHECK(rc == g_op_rc || (g_op_rc > 0 && rc == 0 && op >= 2), "C14: the dispatch layer returns the transport's result whatever the control interface did");
    if (rc < 0) CHECK(e == g_op_errno, "C14,C06: ... and its errno");
    if (op <= 2 || rc == 0)
	CHECK(g_update_calls >= 1 && g_update_seq > g_op_seq, "C04: with auto-update every operation - successful, refused with EAGAIN or failed - is followed by an update of the readiness registrations (no lost wake-up)");
    if (op == 5) CHECK(g_update_calls >= 1, "C04: the server socket is re-armed after every accept attempt");
    CHECK(g_ctl_calls <= 1, "C14: at most one control-interface round per operation");
    if (ctl_before == NULL) CHECK(g_ctl_calls == 0, "C14: no control processing on a socket without control interface");
    if (op <= 2 && ctl_before != NULL && (rc == -1 && e != EAGAIN)) CHECK(g_ctl_calls == 0, "C14: a failed connection is not kept busy with control processing");
    WITNESS(op == 1 && rc == -1 && e == EAGAIN && g_ctl_calls == 1, "EAGAIN receive triggers a control round and still re-arms");
    WITNESS(op == 5 && rc == 0, "accept succeeded");
    return 0;
}
#endif

#ifdef OP_LIFE
/* close/cleanup: the control interface is torn down (owner flag passed on) before the transport */
int main(void)
{
    setup();
    bool owner = nd_bool();
    struct ctl *c = sock.ctl;
    if (owner) xcm_tp_socket_close(&sock); else xcm_tp_socket_cleanup(&sock);
    CHECK(g_close_calls == (owner ? 1 : 0) && g_cleanup_calls == (owner ? 0 : 1), "C08: close -> transport close, cleanup -> transport cleanup, once");
    if (c != NULL) CHECK(g_ctl_destroy_calls == 1 && g_ctl_destroy_owner == owner, "C08,C14: the control interface is destroyed, once, with the same ownership as the transport");
    xcm_tp_socket_close(NULL); xcm_tp_socket_cleanup(NULL);
    WITNESS(!owner && c != NULL, "cleanup of a socket with control interface");
    return 0;
}
#endif

#ifdef OP_GETTER
#define BUFMAX 16
int main(void)
{
    setup();
#ifdef MSG_CONN_ONLY
    /* xcm.max_msg_size and the *_msgs counters exist on messaging connection sockets only (populate_msg_conn) */
    g_bytestream = false; sock.proto = &msg_proto;
#endif
#if GSIZE > 0
    size_t cap = (size_t)nd_range(GSIZE, BUFMAX);
#else
    size_t cap = (size_t)nd_range(0, BUFMAX);
#endif
    uint8_t buf[BUFMAX + 1];
    memset(buf, 0x55, sizeof(buf));
    errno = 0;
    int rc = GETTER(&sock, NULL, buf, cap);
    int e = errno;
    for (size_t i = 0; i <= BUFMAX; i++) if (i >= cap) CHECK(buf[i] == 0x55, "C10: the getter never writes more than `capacity` bytes");
    if (rc >= 0) {
	CHECK((size_t)rc <= cap, "C10: the returned length fits the capacity");
#if GSIZE > 0
	CHECK(rc == GSIZE, "C10: a fixed-size value reports its size");
#else
	CHECK(rc >= 1 && buf[rc - 1] == 0 && strlen((char *)buf) == (size_t)rc - 1, "C10: a string value is NUL-terminated inside the returned length");
#endif
	for (size_t i = 0; i <= BUFMAX; i++) if (i >= (size_t)rc) CHECK(buf[i] == 0x55, "C10: the returned length is exactly the number of bytes written");
	WITNESS((size_t)rc == cap, "value exactly fills the buffer");
    } else {
	CHECK(rc == -1 && (e == EOVERFLOW || e == ENOENT || e == EINVAL), "C10: failure is -1 with EOVERFLOW (does not fit) or ENOENT (not available)");
#if GSIZE == 0
	WITNESS(e == EOVERFLOW, "string does not fit: EOVERFLOW");
#endif
    }
    return 0;
}
#endif

#ifdef OP_SERVICE
/* xcm.service accepts exactly "any" and the socket's actual service; xcm.blocking is xcm_set_blocking */
int main(void)
{
    setup();
    char v[12];
    for (int i = 0; i < 11; i++) v[i] = (char)nd_u8();
    v[11] = 0;
    size_t l = strlen(v);
    errno = 0;
    int rc = set_service_attr(&sock, NULL, v, l + 1);
    const char *actual = g_bytestream ? "bytestream" : "messaging";
    bool ok = strcmp(v, "any") == 0 || strcmp(v, actual) == 0;
    CHECK((rc == 0) == ok, "C11: xcm.service admits exactly \"any\" and the transport's own service type");
    if (rc < 0) CHECK(errno == EINVAL, "C11: any other service is refused with EINVAL");
    bool b = nd_bool();
    bool before = sock.is_blocking;
    int rc2 = set_blocking_attr(&sock, NULL, &b, sizeof(b));
    CHECK(g_set_blocking_calls == 1 && g_set_blocking_arg == b, "C11: xcm.blocking is the same switch as xcm_set_blocking");
    if (rc2 < 0) CHECK(sock.is_blocking == before, "C11: a failed mode switch changes nothing");
    WITNESS(rc == 0 && l == 10, "service = bytestream accepted");
    WITNESS(rc == 0 && l == 3, "service = any accepted");
    return 0;
}
#endif

#ifdef OP_SOCKID
/* socket ids: unique per process, handed out under the id mutex only */
int main(void)
{
    g_true_next_id = (int64_t)nd_range(0, 1LL << 40); next_id = ID_POISON;
    int64_t first = g_true_next_id;
    int64_t a = get_next_sock_id();
    int64_t b = get_next_sock_id();
    CHECK(a == first && b == first + 1 && a != b, "C15: consecutive sockets get distinct ids");
    CHECK(g_held == 0 && g_lock_calls == 2 && g_unlock_calls == 2, "C15: one balanced critical section per id");
    CHECK(next_id == ID_POISON && g_true_next_id == first + 2, "C15: the counter is only touched inside the critical section");
    WITNESS(1, "two ids handed out");
    return 0;
}
#endif
