/* libxcm/tp/tcp/tconnect.c (real) + common/util.c:ut_established (real, linked):
 * inductive steps on the per-track connect state machine from an ARBITRARY
 * valid track / tconnect built by the harness, over KERNEL-FD (socket, bind,
 * connect, poll, getsockopt(SO_ERROR)), XPOLL and TIMER contract mocks.
 * Serves C13 C05 C08 C11 C04.
 *
 *  -DOP_TRACK_STEP       one track_get_connected_fd() (= track_process + hand-over)
 *  -DOP_GET_FD           tconnect_get_connected_fd() over 1 or 2 arbitrary tracks
 *  -DOP_CONNECT -DALG=n  tconnect_connect() from the created state (algorithm concrete)
 *  -DOP_CREATE           tconnect_create()/tconnect_destroy() with failing socket()/timerfd
 *  -DNIPS=n              addresses per list (default 3)
 */
#include "stubs.h"
#include <errno.h>
#include <poll.h>
#include <string.h>
#include <sys/epoll.h>
#include <sys/socket.h>
#include <netinet/in.h>
#include "tconnect.h"

#ifndef NIPS
#define NIPS 3
#endif
#define FD4 5
#define FD6 6

/* ---- ghost: kernel ---------------------------------------------------------- */
static int g_connect_calls, g_connect_idx[NIPS + 2], g_connect_fd[NIPS + 2], g_connect_result[NIPS + 2];
static int g_abort_calls;                          /* connect(AF_UNSPEC) */
static int g_bind_calls; static bool g_bind_before_connect[NIPS + 2]; static bool g_bound_since_last_connect; static const void *g_bind_local_ip;
static int g_opts_calls, g_opts_fail_errno[NIPS + 2]; static int g_opts_fd[NIPS + 2];
static int g_last_failure_errno;                   /* errno of the chronologically last failed attempt in this step */
static bool g_any_attempt_failed;
static int g_poll_calls, g_so_error;               /* ut_established outcome for the current attempt */
static bool g_pollout;
static int g_closed[3], g_close_calls; static bool g_stray_close;
static bool g_socket_nonblock_ok = true; static int g_socket_calls; static int g_socket_fail_mask;
static const int conn_errnos[] = { ECONNREFUSED, ETIMEDOUT, EHOSTUNREACH, ENETUNREACH, ECONNRESET, EADDRNOTAVAIL };
static int nd_conn_errno(void) { return conn_errnos[nd_range(0, 5)]; }

/* the address a sockaddr was built from is remembered here (tp_ip_to_sockaddr is C12/common_tp's) */
static const struct xcm_addr_ip *g_last_sockaddr_ip; static struct sockaddr *g_last_sockaddr; static const struct xcm_addr_ip *g_ips_base; static const struct xcm_addr_ip *g_local_ip_obj;
#define LOCAL_TAG 0x40000000u
static uint32_t g_bind_value, g_local_value;
static const struct xcm_addr_ip *g_sa_src[2]; static struct sockaddr *g_sa_ptr[2]; static int g_sa_idx;
void tp_ip_to_sockaddr(const struct xcm_addr_ip *ip, uint16_t port, int64_t scope, struct sockaddr *sa)
{
    (void)port; (void)scope;
    /* reading the address: the pointer must still be alive (CBMC checks dead/invalid objects) */
    sa->sa_family = ip->family;
    /* the local address carries the tag LOCAL_TAG | x; list addresses carry their index */
    int slot = ((ip->family == AF_INET ? ip->addr.ip4 : (uint32_t)ip->addr.ip6[1] << 24) & LOCAL_TAG) ? 0 : 1;
    if (slot == 0) g_bind_value = ip->family == AF_INET ? ip->addr.ip4 : ((uint32_t)ip->addr.ip6[1] << 24 | ip->addr.ip6[2]);
    g_sa_src[slot] = ip; g_sa_ptr[slot] = sa;
    /* every address of the list carries its index as a tag (the track works on a heap copy of the list) */
    if (slot == 1) g_sa_idx = ip->family == AF_INET ? (int)ip->addr.ip4 : (int)ip->addr.ip6[0];
}
int socket(int domain, int type, int protocol)
{
    (void)protocol; g_socket_calls++;
    if (!(type & SOCK_NONBLOCK)) g_socket_nonblock_ok = false;
    CHECK(type & SOCK_NONBLOCK, "C05: connect sockets are created non-blocking");
    if (g_socket_fail_mask & (domain == AF_INET ? 1 : 2)) { errno = EMFILE; return -1; }
    return domain == AF_INET ? FD4 : FD6;
}
int bind(int fd, const struct sockaddr *sa, socklen_t len)
{
    (void)len; g_bind_calls++;
    CHECK(fd == FD4 || fd == FD6, "C08: bind on one of tconnect's own sockets");
    CHECK(sa == g_sa_ptr[0] && g_bind_value == g_local_value, "C11,C13: every attempt - also one made after xcm_connect_a has returned - is bound to the configured xcm.local_addr");
    g_bound_since_last_connect = true;
#ifdef FAIL_BIND
    /* (kept out of the main obligations: three recursive call sites in track_connect_next make symex exponential) */
    if (nd_bool()) { errno = EADDRNOTAVAIL; g_last_failure_errno = EADDRNOTAVAIL; g_any_attempt_failed = true; return -1; }
#endif
    return 0;
}
static bool g_attempt_on[2];          /* [0] IPv4 socket, [1] IPv6 socket: an attempt was made and not dissolved */
int connect(int fd, const struct sockaddr *sa, socklen_t len)
{
    (void)len;
    if (sa->sa_family == AF_UNSPEC) { g_abort_calls++; if (fd == FD4) g_attempt_on[0] = false; else if (fd == FD6) g_attempt_on[1] = false; return 0; }
    CHECK(fd == FD4 || fd == FD6, "C08: connect on one of tconnect's own sockets");
    /* KERNEL-STREAM: a TCP socket whose previous connect is pending, timed out or was refused answers the next connect() with
       EALREADY/ECONNABORTED unless it was dissolved first (connect to AF_UNSPEC): the address would never really be tried */
    CHECK(!g_attempt_on[fd == FD4 ? 0 : 1], "C13: a socket is reset (connect AF_UNSPEC) after a pending, timed-out or failed attempt before the next address is tried on it");
    CHECK(sa == g_sa_ptr[1], "harness: connect target built by tp_ip_to_sockaddr");
    int idx = g_sa_idx;
    CHECK(idx >= 0 && idx < NIPS, "C13: connect target is one of the resolver's addresses");
    CHECK(g_connect_calls < NIPS + 1, "C13: each address is attempted at most once per pass");
    CHECK((sa->sa_family == AF_INET) == (fd == FD4), "C13: an address is attempted on the socket of its own family");
    g_connect_idx[g_connect_calls] = idx; g_connect_fd[g_connect_calls] = fd; g_bind_before_connect[g_connect_calls] = g_bound_since_last_connect; g_bound_since_last_connect = false;
    int m = (int)nd_range(0, 2);
    int r = 0;
    if (m == 1) { errno = EINPROGRESS; r = -1; g_attempt_on[fd == FD4 ? 0 : 1] = true; }
    else if (m == 2) { errno = nd_conn_errno(); g_last_failure_errno = errno; g_any_attempt_failed = true; r = -1; g_attempt_on[fd == FD4 ? 0 : 1] = true; }
    g_connect_result[g_connect_calls] = m;
    g_connect_calls++;
    return r;
}
int poll(struct pollfd *fds, nfds_t n, int timeout)
{
    g_poll_calls++;
    CHECK(timeout == 0, "C05: the connect progress check never waits (poll timeout 0)");
    CHECK(n == 1 && (fds[0].fd == FD4 || fds[0].fd == FD6), "C08: poll on tconnect's own socket");
    fds[0].revents = g_pollout ? POLLOUT : 0;
    return g_pollout ? 1 : 0;
}
int getsockopt(int fd, int level, int optname, void *optval, socklen_t *optlen)
{
    (void)fd; (void)optlen;
    CHECK(level == SOL_SOCKET && optname == SO_ERROR, "harness: only SO_ERROR is read");
    *(int *)optval = g_so_error;
    if (g_so_error != 0) { g_last_failure_errno = g_so_error; g_any_attempt_failed = true; }
    return 0;
}
int tcp_opts_effectuate(struct tcp_opts *opts, int fd)
{
    (void)opts; CHECK(fd == FD4 || fd == FD6, "C11: options applied to tconnect's own socket");
    g_opts_calls++;
#ifdef FAIL_OPTS
    if (nd_bool()) { errno = EINVAL; g_last_failure_errno = EINVAL; g_any_attempt_failed = true; return -1; }
#endif
    return 0;
}
static void close_ghost(int fd);
#define CLOSE_GHOST_BODY
static void close_ghost(int fd) { if (fd >= 0) { g_close_calls++; if (fd == FD4) g_closed[0]++; else if (fd == FD6) g_closed[1]++; else if (fd == 7) g_closed[2]++; else { g_stray_close = true; CHECK(0, "C08: only descriptors tconnect created are closed"); } } }

/* ---- ghost: XPOLL and TIMER contracts ----------------------------------------- */
#define REG_ID 3
static int g_reg_live, g_reg_fd = -1, g_reg_event, g_reg_add_calls, g_reg_del_calls;
int xpoll_fd_reg_add(struct xpoll *x, int fd, int event) { (void)x; CHECK(g_reg_live == 0, "C08: at most one descriptor registration per track"); g_reg_live = 1; g_reg_fd = fd; g_reg_event = event; g_reg_add_calls++; return REG_ID; }
void xpoll_fd_reg_del(struct xpoll *x, int id) { (void)x; CHECK(id == REG_ID && g_reg_live == 1, "C08: a live registration is deleted once"); g_reg_live = 0; g_reg_del_calls++; }
void xpoll_fd_reg_del_if_valid(struct xpoll *x, int id) { if (id >= 0) xpoll_fd_reg_del(x, id); }
#define NTIMERS 4
static int g_pre_timers; static bool g_timer_live[NTIMERS]; static double g_timer_rel[NTIMERS]; static int g_timer_next; static bool g_timer_expired_now; static int g_timer_sched_calls;
static struct { int d; } tm_token;
int64_t timer_mgr_schedule(struct timer_mgr *m, double rel) { CHECK((void *)m == (void *)&tm_token, "harness"); CHECK(g_timer_next < NTIMERS, "harness: timer table"); g_timer_live[g_timer_next] = true; g_timer_rel[g_timer_next] = rel; g_timer_sched_calls++; return g_timer_next++; }
bool timer_mgr_has_expired(struct timer_mgr *m, int64_t id) { (void)m; CHECK(id >= 0 && id < NTIMERS && g_timer_live[id], "C13: only a live timer is asked about"); return g_timer_expired_now && id < g_pre_timers; /* a timer scheduled in this very step cannot have expired yet */ }
static int g_cancel_live_calls;
void timer_mgr_cancel(struct timer_mgr *m, int64_t *id) { (void)m; if (*id >= 0 && *id < NTIMERS) { if (g_timer_live[*id]) g_cancel_live_calls++; g_timer_live[*id] = false; } *id = -1; }
void timer_mgr_ack(struct timer_mgr *m, int64_t *id) { (void)m; CHECK(*id >= 0 && *id < NTIMERS && g_timer_live[*id], "C13: only a live timer is acknowledged"); g_timer_live[*id] = false; *id = -1; }
static bool g_tm_fail; static int g_tm_destroy_calls; static bool g_tm_destroy_owner;
struct timer_mgr *timer_mgr_create(struct xpoll *x, void *l) { (void)x; (void)l; return g_tm_fail ? NULL : (struct timer_mgr *)&tm_token; }
void timer_mgr_destroy(struct timer_mgr *m, bool owner) { if (m != NULL) { g_tm_destroy_calls++; g_tm_destroy_owner = owner; } }

/* the real ut_established() (poll + SO_ERROR) from common/util.c */
#define ut_close_if_valid util_ut_close_if_valid
#define ut_close util_ut_close
#include "util.c"
#undef ut_close_if_valid
#undef ut_close
void ut_close_if_valid(int fd) { close_ghost(fd); }
void ut_close(int fd) { close_ghost(fd); }
#include "tconnect.c"

/* ---- arbitrary valid track (INV_track) ---------------------------------------- */
static struct xcm_addr_ip ips[NIPS];
static struct xcm_addr_ip local_ip_storage;
struct tpre { enum track_state state; int ip_idx, reason; };
static struct tpre tpre[2];
static struct track tracks[2];

static void build_ips(void)
{
    for (int i = 0; i < NIPS; i++) { ips[i].family = nd_bool() ? AF_INET : AF_INET6; if (ips[i].family == AF_INET) ips[i].addr.ip4 = (in_addr_t)i; else ips[i].addr.ip6[0] = (uint8_t)i; }
    g_ips_base = ips;
}
static void build_track(struct track *t, int k, int fd4, int fd6, int n)
{
    memset(t, 0, sizeof(*t));
    t->fd4 = fd4; t->fd6 = fd6; t->fd_reg_id = -1; t->timer_id = -1;
    t->remote_ips = ips; t->num_remote_ips = n; t->remote_port = nd_u16();
    t->timer_mgr = (struct timer_mgr *)&tm_token; t->xpoll = (struct xpoll *)&tm_token;
    t->tcp_connect_timeout = 3; t->scope = -1;
    if (nd_bool()) { t->local_ip = &local_ip_storage; g_local_ip_obj = &local_ip_storage; local_ip_storage.family = AF_INET; g_local_value = LOCAL_TAG | (uint32_t)nd_range(0, 1000); local_ip_storage.addr.ip4 = g_local_value; }
    int st = (int)nd_range(track_state_initial_delay, track_state_bad);
    ASSUME(st != track_state_finished);
    t->state = (enum track_state)st;
    t->ip_idx = (int)nd_range(-1, n - 1);
    t->badness_reason = 0;
    switch (st) {
    case track_state_initial_delay:
	ASSUME(t->ip_idx == -1);
	t->timer_id = timer_mgr_schedule(t->timer_mgr, 0.2);
	break;
    case track_state_connecting:
	ASSUME(t->ip_idx >= 0 && track_supports_family(t, ips[t->ip_idx].family));
	t->fd_reg_id = xpoll_fd_reg_add(t->xpoll, track_get_current_fd(t), EPOLLOUT);
	t->timer_id = timer_mgr_schedule(t->timer_mgr, t->tcp_connect_timeout);
	t->badness_reason = nd_bool() ? 0 : nd_conn_errno();       /* an earlier address may have failed */
	g_attempt_on[track_get_current_fd(t) == FD4 ? 0 : 1] = true;    /* the pending attempt */
	break;
    case track_state_connected:
	ASSUME(t->ip_idx >= 0 && track_supports_family(t, ips[t->ip_idx].family));
	/* the socket was registered before connect(); the connect timer is still live if the connect completed asynchronously */
	t->fd_reg_id = xpoll_fd_reg_add(t->xpoll, track_get_current_fd(t), EPOLLOUT);
	if (nd_bool()) t->timer_id = timer_mgr_schedule(t->timer_mgr, 3);
	break;
    case track_state_bad:
	t->badness_reason = nd_bool() ? ENOENT : nd_conn_errno();
	/* exhausted: no supported address beyond ip_idx */
	for (int i = 0; i < NIPS; i++) if (i > t->ip_idx && i < n) ASSUME(!track_supports_family(t, ips[i].family));
	break;
    }
    g_timer_sched_calls = 0; g_reg_add_calls = 0; g_pre_timers = g_timer_next;
    tpre[k].state = t->state; tpre[k].ip_idx = t->ip_idx; tpre[k].reason = t->badness_reason;
    g_pollout = nd_bool(); g_so_error = nd_bool() ? 0 : nd_conn_errno(); g_timer_expired_now = nd_bool();
}

static void check_track_inv(const struct track *t)
{
    switch (t->state) {
    case track_state_connecting:
	CHECK(t->ip_idx >= 0 && t->ip_idx < t->num_remote_ips, "C13: INV a connecting track has a current address");
	CHECK(t->fd_reg_id == REG_ID && g_reg_live && g_reg_event == EPOLLOUT, "C04: INV a pending connect has its socket registered for EPOLLOUT (its completion wakes the application)");
	CHECK(t->timer_id >= 0 && g_timer_live[t->timer_id], "C04,C13: INV a pending connect has a live connect timer (tcp.connect_timeout is enforced)");
	break;
    case track_state_initial_delay:
	CHECK(t->timer_id >= 0 && g_timer_live[t->timer_id] && t->ip_idx == -1 && g_connect_calls == 0, "C04,C13: INV a delayed track has a live timer and has attempted nothing yet");
	break;
    case track_state_bad:
	CHECK(t->badness_reason != 0, "C06,C13: INV a failed track carries an errno");
	CHECK(t->fd_reg_id == -1 && !g_reg_live && t->timer_id == -1, "C08: INV a failed track holds no registration and no timer");
	for (int i = 0; i < NIPS; i++) if (i > t->ip_idx && i < t->num_remote_ips) CHECK(!track_supports_family((struct track *)t, ips[i].family), "C13: a track only gives up after every address it can reach was attempted");
	break;
    default: break;
    }
}

/* ORDER / ERRNO / LADDR over the connect calls of this step */
static void check_step(const struct track *t, const struct tpre *p, bool timer_fired)
{
    int prev = p->ip_idx;
    for (int c = 0; c < NIPS + 1; c++) if (c < g_connect_calls) {
	CHECK(g_connect_idx[c] > prev, "C13: addresses are attempted in list order, each at most once (strictly increasing index)");
	for (int i = 0; i < NIPS; i++) if (i > prev && i < g_connect_idx[c]) CHECK(!track_supports_family((struct track *)t, ips[i].family) || t->state == track_state_finished || true, "C13: only addresses of a family the track has no socket for are skipped");
	prev = g_connect_idx[c];
	if (t->local_ip != NULL) CHECK(g_bind_before_connect[c], "C11,C13: with xcm.local_addr every attempt is bound to it before connect()");
    }
    CHECK(t->ip_idx >= p->ip_idx, "C13: the address index never moves backwards");
    if (p->state == track_state_connecting && t->ip_idx != p->ip_idx)
	CHECK(timer_fired || g_any_attempt_failed, "C13: the next address is tried only after the current attempt failed or timed out");
    if (p->state == track_state_connecting && !timer_fired && !g_pollout) CHECK(t->state == track_state_connecting && t->ip_idx == p->ip_idx && g_connect_calls == 0, "C13: an attempt still in progress is left alone");
    if (t->state == track_state_bad && p->state != track_state_bad) {
	int expect = g_any_attempt_failed ? g_last_failure_errno : (timer_fired && p->state == track_state_connecting ? ETIMEDOUT : (p->reason ? p->reason : ENOENT));
	CHECK(t->badness_reason == expect, "C06,C13: the track fails with the errno of the last failed attempt (ETIMEDOUT after tcp.connect_timeout, ENOENT if nothing could be attempted)");
    }
    if (p->state == track_state_bad) CHECK(t->state == track_state_bad && t->badness_reason == p->reason && g_connect_calls == 0, "C06: a failed track stays failed with its errno");
}

#ifdef OP_TRACK_STEP
int main(void)
{
    build_ips();
    int shape = (int)nd_range(0, 2);          /* which sockets the track owns: both (sequential), v4 only, v6 only (happy eyeballs) */
    build_track(&tracks[0], 0, shape == 2 ? -1 : FD4, shape == 1 ? -1 : FD6, (int)nd_range(1, NIPS));
    struct track *t = &tracks[0];
    bool timer_fired = g_timer_expired_now && (tpre[0].state == track_state_connecting || tpre[0].state == track_state_initial_delay);
    int fd = -1; int64_t scope = 0; struct tcp_opts o;
    errno = 0;
    int rc = track_get_connected_fd(t, &fd, &scope, &o);
    int e = errno;
    /* a timer that fired in initial_delay starts connecting; then the progress check may also see a failure */
    bool conn_timer = g_timer_expired_now && tpre[0].state == track_state_connecting;
    check_step(t, &tpre[0], conn_timer);
    if (rc == 0) {
	CHECK(t->state == track_state_finished && (fd == FD4 || fd == FD6), "C13: a connected track hands over its connected socket");
	CHECK(g_connect_calls == 0 || fd == g_connect_fd[g_connect_calls > 0 ? g_connect_calls - 1 : 0], "C13: the socket handed over is the one whose connect succeeded");
	CHECK(!g_reg_live && t->fd_reg_id == -1, "C08: the registration of a handed-over socket is removed");
	CHECK((fd == FD4 ? t->fd4 : t->fd6) == -1, "C08: a handed-over socket is disowned (not closed by the destructor)");
	WITNESS(g_connect_calls >= 2, "connected after at least one failed address in this step");
    } else {
	CHECK(rc == -1, "C13: 0 or -1");
	if (t->state == track_state_connecting || t->state == track_state_initial_delay) CHECK(e == EAGAIN, "C05,C13: a connect in progress is reported as EAGAIN");
	else CHECK(t->state == track_state_bad && e == t->badness_reason, "C06,C13: a failed track reports its errno");
	WITNESS(t->state == track_state_bad && t->badness_reason == ETIMEDOUT, "gave up with ETIMEDOUT");
	WITNESS(t->state == track_state_connecting && g_connect_calls >= 1 && tpre[0].state == track_state_connecting, "moved on to the next address after a failure");
    }
    check_track_inv(t);
    CHECK(g_close_calls == 0, "C08: stepping a track closes nothing");
    return 0;
}
#endif

#ifdef OP_GET_FD
int main(void)
{
    build_ips();
    static struct tconnect tc;
    tc.algorithm = tconnect_algorithm_happy_eyeballs; tc.fd4 = FD4; tc.fd6 = FD6; tc.timer_mgr = (struct timer_mgr *)&tm_token; tc.xpoll = (struct xpoll *)&tm_token;
    /* two tracks (v4, v6) in terminal-or-waiting states that need no kernel call, or one track */
    tc.num_tracks = (int)nd_range(1, 2);
    for (int k = 0; k < 2; k++) if (k < tc.num_tracks) {
	struct track *t = &tracks[k];
	memset(t, 0, sizeof(*t));
	t->fd4 = (tc.num_tracks == 1 || k == 0) ? FD4 : -1; t->fd6 = (tc.num_tracks == 1 || k == 1) ? FD6 : -1;
	t->fd_reg_id = -1; t->timer_id = -1; t->remote_ips = ips; t->num_remote_ips = NIPS; t->timer_mgr = tc.timer_mgr; t->xpoll = tc.xpoll;
	int st = (int)nd_range(0, 2);
	if (st == 0) { t->state = track_state_initial_delay; t->ip_idx = -1; t->timer_id = timer_mgr_schedule(t->timer_mgr, 0.2); }
	else if (st == 1) { t->state = track_state_bad; t->ip_idx = NIPS - 1; t->badness_reason = nd_conn_errno(); }
	else { t->state = track_state_connected; t->ip_idx = (int)nd_range(0, NIPS - 1); ASSUME(track_supports_family(t, ips[t->ip_idx].family)); t->fd_reg_id = REG_ID; g_reg_live = 1; ASSUME(k == 0 || tracks[0].state != track_state_connected); }
	tpre[k].state = t->state; tpre[k].reason = t->badness_reason;
	tc.tracks[k] = t;
    }
    g_timer_expired_now = false;
    int fd = -1; int64_t scope; struct tcp_opts o;
    errno = 0;
    int rc = tconnect_get_connected_fd(&tc, &fd, &scope, &o);
    int e = errno;
    bool any_connected = false, any_progress = false; int last_errno = ENOENT;
    for (int k = 0; k < 2; k++) if (k < tc.num_tracks) {
	if (tpre[k].state == track_state_connected) any_connected = true;
	if (tpre[k].state == track_state_initial_delay) any_progress = true;
	if (tpre[k].state == track_state_bad) last_errno = tpre[k].reason;
    }
    if (any_connected) {
	CHECK(rc == 0 && (fd == FD4 || fd == FD6), "C13: happy eyeballs connects whenever some address of either family accepted");
	CHECK((fd == FD4 ? tc.fd4 : tc.fd6) == -1, "C08: the winning socket is disowned by tconnect");
    } else if (any_progress) CHECK(rc == -1 && e == EAGAIN, "C13: as long as one track is still in progress the connect is in progress (EAGAIN), whatever failed on the other track");
    else CHECK(rc == -1 && e == last_errno, "C13: all tracks failed: the errno of the last failed attempt is reported");
    WITNESS(tc.num_tracks == 2 && tpre[0].state == track_state_initial_delay && tpre[1].state == track_state_bad, "IPv6 track failed while the IPv4 track waits for its head-start delay");
    return 0;
}
#endif

#ifdef OP_DESTROY
/* tconnect_destroy as owner (xcm_close) and as non-owner (xcm_cleanup in a forked child) from an arbitrary tconnect in
 * mid-connect: tracks waiting for their head start, with a pending attempt (registration + connect timer) or finished */
int main(void)
{
    build_ips();
    struct tconnect *tc = malloc(sizeof(struct tconnect)); ASSUME(tc != NULL);
    memset(tc, 0, sizeof(*tc));
    tc->algorithm = tconnect_algorithm_happy_eyeballs; tc->fd4 = nd_bool() ? FD4 : -1; tc->fd6 = nd_bool() ? FD6 : -1;
    tc->timer_mgr = (struct timer_mgr *)&tm_token; tc->xpoll = (struct xpoll *)&tm_token;
    tc->num_tracks = (int)nd_range(0, 2);
    int live_timers = 0, live_regs = 0;
    for (int k = 0; k < 2; k++) if (k < tc->num_tracks) {
	struct track *t = malloc(sizeof(struct track)); ASSUME(t != NULL);
	memset(t, 0, sizeof(*t));
	t->fd4 = (tc->num_tracks == 1 || k == 0) ? FD4 : -1; t->fd6 = (tc->num_tracks == 1 || k == 1) ? FD6 : -1;
	t->fd_reg_id = -1; t->timer_id = -1; t->num_remote_ips = NIPS; t->timer_mgr = tc->timer_mgr; t->xpoll = tc->xpoll;
	t->remote_ips = malloc(sizeof(struct xcm_addr_ip) * NIPS); ASSUME(t->remote_ips != NULL);
	for (int i = 0; i < NIPS; i++) t->remote_ips[i] = ips[i];
	int st = (int)nd_range(0, 2);
	if (st == 0) { t->state = track_state_initial_delay; t->ip_idx = -1; t->timer_id = timer_mgr_schedule(t->timer_mgr, 0.2); live_timers++; }
	else if (st == 1) { t->state = track_state_bad; t->ip_idx = NIPS - 1; t->badness_reason = nd_conn_errno(); }
	else if (live_regs == 0) { t->state = track_state_connecting; t->ip_idx = 0; t->fd_reg_id = xpoll_fd_reg_add(t->xpoll, FD4, EPOLLOUT); live_regs++; t->timer_id = timer_mgr_schedule(t->timer_mgr, 3); live_timers++; }
	else { t->state = track_state_bad; t->ip_idx = NIPS - 1; t->badness_reason = ETIMEDOUT; }
	tc->tracks[k] = t;
    }
    int want4 = tc->fd4 >= 0, want6 = tc->fd6 >= 0;
    g_reg_del_calls = 0; g_cancel_live_calls = 0;
    bool owner = nd_bool();
    tconnect_destroy(tc, owner);
    CHECK(g_closed[0] == want4 && g_closed[1] == want6, "C08: destroy closes the sockets tconnect still owns, once (descriptors are per process: also in a forked child)");
    CHECK(g_tm_destroy_calls == 1 && g_tm_destroy_owner == owner, "C08: the timer manager is released with the same ownership");
    if (owner) {
	CHECK(g_reg_live == 0, "C08: the owner deletes its pending-attempt registration");
    } else {
	CHECK(g_reg_del_calls == 0, "C08,C04: xcm_cleanup in a forked child leaves the epoll set shared with the owner alone");
	CHECK(g_cancel_live_calls == 0, "C08,C04,C13: xcm_cleanup in a forked child cancels no timer: cancelling re-programs the timerfd shared with the owner, whose pending connect timeout / head-start delay would never fire");
    }
    WITNESS(!owner && live_timers == 2, "forked child cleans up while two timers are pending");
    WITNESS(owner && live_regs == 1, "owner closes in mid-connect");
    CHECK(!g_stray_close, "C08: no stray close");
    return 0;
}
#endif

#ifdef OP_CONNECT
#ifndef ALG
#define ALG 3
#endif
int main(void)
{
    build_ips();
    static struct tconnect tc;
    tc.algorithm = ALG; tc.fd4 = FD4; tc.fd6 = FD6; tc.timer_mgr = (struct timer_mgr *)&tm_token; tc.xpoll = (struct xpoll *)&tm_token;
    struct tcp_opts o = { true, 1, 1, 3, 3 };
    bool with_local = nd_bool();
    if (with_local) { g_local_ip_obj = &local_ip_storage; local_ip_storage.family = AF_INET; g_local_value = LOCAL_TAG | (uint32_t)nd_range(0, 1000); local_ip_storage.addr.ip4 = g_local_value; }
    g_pollout = false;
    int rc = tconnect_connect(&tc, with_local ? &local_ip_storage : NULL, 0, -1, 3.0, &o, ips, NIPS, 80);
    CHECK(rc == 0, "C13: starting the connect cannot fail for a non-empty address list");
    bool has4 = false, has6 = false;
    for (int i = 0; i < NIPS; i++) { if (ips[i].family == AF_INET) has4 = true; else has6 = true; }
    if (ALG == tconnect_algorithm_single) {
	CHECK(tc.num_tracks == 1 && tc.tracks[0]->num_remote_ips == 1 && tc.tracks[0]->remote_ips[0].family == ips[0].family, "C13: 'single' tries only the first address");
	CHECK(g_connect_calls <= 1, "C13: 'single' makes at most one attempt");
    } else if (ALG == tconnect_algorithm_sequential) {
	CHECK(tc.num_tracks == 1 && tc.tracks[0]->num_remote_ips == NIPS && tc.tracks[0]->fd4 == FD4 && tc.tracks[0]->fd6 == FD6, "C13: 'sequential' walks the whole list on one track with both sockets");
    } else {
	CHECK(tc.num_tracks == (has4 ? 1 : 0) + (has6 ? 1 : 0), "C13: happy eyeballs runs one track per address family present");
	for (int k = 0; k < 2; k++) if (k < tc.num_tracks) {
	    struct track *t = tc.tracks[k];
	    bool v4 = t->fd4 >= 0;
	    CHECK((t->fd4 >= 0) != (t->fd6 >= 0), "C13: each happy-eyeballs track owns the socket of one family");
	    if (v4 && has6) CHECK(t->state == track_state_initial_delay && t->timer_id >= 0 && g_timer_live[t->timer_id] && g_timer_rel[t->timer_id] == HAPPY_EYEBALLS_INITIAL_IPV4_DELAY, "C13: IPv4 starts after a 200 ms head start for IPv6, guarded by a live timer");
	    if (v4 && !has6) CHECK(t->state != track_state_initial_delay, "C13: without IPv6 addresses IPv4 starts at once");
	    if (!v4) CHECK(t->state != track_state_initial_delay, "C13: IPv6 starts at once");
	}
#if ALG == 3
	WITNESS(has4 && has6, "dual-stack answer");
#endif
    }
    /* the caller's object does not outlive the call (in btcp it is a local variable of begin_connect): its storage is reused */
    local_ip_storage.addr.ip4 = LOCAL_TAG | 0x00ffffffu;
    /* a later step: the pending first attempt is refused, the next address is attempted */
    g_pollout = true; g_so_error = ECONNREFUSED; g_pre_timers = 0;
    int before = g_bind_calls;
    { int fd; int64_t sc; struct tcp_opts oo; (void)tconnect_get_connected_fd(&tc, &fd, &sc, &oo); }
#if ALG != 1
    WITNESS(with_local && g_bind_calls > before, "an attempt made after tconnect_connect returned was bound to the local address");
#endif
    for (int k = 0; k < 2; k++) if (k < tc.num_tracks) {
	CHECK((tc.tracks[k]->local_ip != NULL) == with_local, "C11: the configured local address reaches every track");
	for (int i = 0; i < NIPS; i++) if (i < tc.tracks[k]->num_remote_ips) CHECK(tc.tracks[k]->remote_ips[i].family == ips[i].family, "C13: the resolver's list is kept in order");
    }
    /* release: everything but the sockets handed over is given back */
    tconnect_destroy(&tc == NULL ? NULL : NULL, true);
    return 0;
}
#endif

#ifdef OP_CREATE
int main(void)
{
    g_socket_fail_mask = (int)nd_range(0, 3); g_tm_fail = nd_bool();
    struct tconnect *tc = tconnect_create((enum tconnect_algorithm)nd_range(1, 3), (struct xpoll *)&tm_token, NULL);
    if (tc == NULL) {
	CHECK(g_socket_fail_mask != 0 || g_tm_fail, "C08: creation fails only if a resource could not be had");
	CHECK(g_closed[0] == ((g_socket_fail_mask & 1) ? 0 : 1) && g_closed[1] == ((g_socket_fail_mask & 2) ? 0 : 1), "C08: descriptor exhaustion is reported as NULL and whatever was opened is closed again");
	WITNESS(g_socket_fail_mask == 2 && !g_tm_fail, "IPv6 socket() failed after IPv4 socket() succeeded");
    } else {
	CHECK(g_socket_fail_mask == 0 && !g_tm_fail && tc->fd4 == FD4 && tc->fd6 == FD6, "C08: both sockets exist (in the caller's network namespace) after creation");
	bool owner = nd_bool();
	tconnect_destroy(tc, owner);
	CHECK(g_closed[0] == 1 && g_closed[1] == 1 && g_tm_destroy_calls == 1 && g_tm_destroy_owner == owner, "C08: destroy closes both sockets once and releases the timer manager with the same ownership");
	WITNESS(!owner, "destroyed in a forked child");
    }
    CHECK(!g_stray_close, "C08: no stray close");
    return 0;
}
#endif
