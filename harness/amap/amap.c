/* libxcm/core/xcm_attr_map.c: each operation once from an ARBITRARY map of
 * <= NMAX entries that the harness builds node by node (distinct keys of a
 * 3-key alphabet, any of the five types, any value), compared with a
 * reference finite map.  Serves C19.
 *
 *  -DOP_ADD | OP_DEL | OP_GET | OP_CLONE | OP_EQUAL | OP_FOREACH | OP_ADDALL | OP_DESTROY | OP_CREATE
 */
#include "stubs.h"
#define MM_MAX 8
#define MM_ALLOC 8
#include "memmodel.h"

#define VMAX 3     /* bin/str values: length 0..VMAX */
char *ut_strdup(const char *str)
{
    /* keys of the alphabet are at most 2 characters */
    char *p = malloc(3);
    ASSUME(p != NULL);
    p[0] = str[0]; p[1] = str[0] ? str[1] : 0; p[2] = 0;
    CHECK(str[0] == 0 || str[1] == 0 || str[2] == 0, "harness: key length within the alphabet");
    return p;
}
void *ut_memdup(const void *ptr, size_t size)
{
    CHECK(size <= MM_ALLOC, "harness: value length within the modelled object size");
    char *p = malloc(MM_ALLOC);
    ASSUME(p != NULL);
    for (size_t i = 0; i < MM_ALLOC; i++)
	p[i] = i < size ? ((const char *)ptr)[i] : 0x5a;
    return p;
}
#ifdef VERIF_CBMC
int memcmp(const void *a, const void *b, size_t n)
{
    CHECK(n <= MM_ALLOC, "C19: values are compared over their own length only");
    for (size_t i = 0; i < MM_ALLOC; i++)
	if (i < n && ((const unsigned char *)a)[i] != ((const unsigned char *)b)[i])
	    return ((const unsigned char *)a)[i] < ((const unsigned char *)b)[i] ? -1 : 1;
    return 0;
}
#endif

#include "xcm_attr_map.c"

#define NKEYS 3
static const char *const alphabet[NKEYS] = { "a", "b", "ab" };
#ifndef NMAX
#define NMAX 3
#endif

struct ref_entry { bool present; enum xcm_attr_type type; size_t len; uint8_t val[MM_ALLOC]; };
struct ref_map { struct ref_entry e[NKEYS]; };

static size_t nd_len_for(enum xcm_attr_type t)
{
    switch (t) {
    case xcm_attr_type_bool: return sizeof(bool);
    case xcm_attr_type_int64: return sizeof(int64_t);
    case xcm_attr_type_double: return sizeof(double);
    default: return (size_t)nd_range(0, VMAX);
    }
}

static void nd_value(struct ref_entry *r)
{
    r->type = (enum xcm_attr_type)nd_range(xcm_attr_type_bool, xcm_attr_type_double);
    ASSUME(r->type == xcm_attr_type_bool || r->type == xcm_attr_type_int64 || r->type == xcm_attr_type_str || r->type == xcm_attr_type_bin || r->type == xcm_attr_type_double);
    r->len = nd_len_for(r->type);
    for (size_t i = 0; i < MM_ALLOC; i++)
	r->val[i] = i < r->len ? nd_u8() : 0x5a;
    if (r->type == xcm_attr_type_str) {
	ASSUME(r->len >= 1);
	r->val[r->len - 1] = 0;
    }
}

/* an arbitrary valid map: any subset of the keys, in any order, any values */
static struct xcm_attr_map *build_map(struct ref_map *ref)
{
    struct xcm_attr_map *m = malloc(sizeof(struct xcm_attr_map));
    ASSUME(m != NULL);
    LIST_INIT(&m->attrs);
    for (int k = 0; k < NKEYS; k++) ref->e[k].present = false;
    int n = (int)nd_range(0, NMAX);
    for (int i = 0; i < NMAX; i++) {
	if (i >= n) break;
	int k = (int)nd_range(0, NKEYS - 1);
	ASSUME(!ref->e[k].present);
	ref->e[k].present = true;
	nd_value(&ref->e[k]);
	struct attr *a = malloc(sizeof(struct attr));
	ASSUME(a != NULL);
	a->name = ut_strdup(alphabet[k]);
	a->type = ref->e[k].type;
	a->value_len = ref->e[k].len;
	a->value = ut_memdup(ref->e[k].val, ref->e[k].len);
	LIST_INSERT_HEAD(&m->attrs, a, entry);
    }
    return m;
}

static size_t ref_size(const struct ref_map *r) { size_t n = 0; for (int k = 0; k < NKEYS; k++) n += r->e[k].present; return n; }

static bool ref_entry_equal(const struct ref_entry *a, const struct ref_entry *b)
{
    if (a->present != b->present) return false;
    if (!a->present) return true;
    if (a->type != b->type || a->len != b->len) return false;
    for (size_t i = 0; i < MM_ALLOC; i++) if (i < a->len && a->val[i] != b->val[i]) return false;
    return true;
}
static bool ref_equal(const struct ref_map *a, const struct ref_map *b)
{
    for (int k = 0; k < NKEYS; k++) if (!ref_entry_equal(&a->e[k], &b->e[k])) return false;
    return true;
}

/* every observable of the real map agrees with the reference */
static void check_agrees(const struct xcm_attr_map *m, const struct ref_map *ref)
{
    CHECK(xcm_attr_map_size(m) == ref_size(ref), "C19: size = number of distinct names");
    for (int k = 0; k < NKEYS; k++) {
	const struct ref_entry *r = &ref->e[k];
	enum xcm_attr_type t = (enum xcm_attr_type)99; size_t l = 99;
	const uint8_t *v = xcm_attr_map_get(m, alphabet[k], &t, &l);
	CHECK(xcm_attr_map_exists(m, alphabet[k]) == r->present, "C19: exists <=> the name is in the map");
	if (!r->present) {
	    CHECK(v == NULL, "C19: lookup of an absent name returns NULL");
	    CHECK(xcm_attr_map_get_bool(m, alphabet[k]) == NULL && xcm_attr_map_get_str(m, alphabet[k]) == NULL, "C19: typed lookup of an absent name returns NULL");
	} else {
	    CHECK(v != NULL && t == r->type && l == r->len, "C19: lookup returns the type and length last stored");
	    for (size_t i = 0; i < MM_ALLOC; i++)
		if (v != NULL && i < r->len) CHECK(v[i] == r->val[i], "C19: stored values are byte-exact copies");
	    CHECK((xcm_attr_map_get_bool(m, alphabet[k]) != NULL) == (r->type == xcm_attr_type_bool), "C19: typed lookup returns NULL on a type mismatch (bool)");
	    CHECK((xcm_attr_map_get_int64(m, alphabet[k]) != NULL) == (r->type == xcm_attr_type_int64), "C19: typed lookup returns NULL on a type mismatch (int64)");
	    CHECK((xcm_attr_map_get_double(m, alphabet[k]) != NULL) == (r->type == xcm_attr_type_double), "C19: typed lookup returns NULL on a type mismatch (double)");
	    CHECK((xcm_attr_map_get_str(m, alphabet[k]) != NULL) == (r->type == xcm_attr_type_str), "C19: typed lookup returns NULL on a type mismatch (str)");
	    CHECK((xcm_attr_map_get_bin(m, alphabet[k]) != NULL) == (r->type == xcm_attr_type_bin), "C19: typed lookup returns NULL on a type mismatch (bin)");
	}
    }
}

/* foreach callback: ticks off each entry */
static int g_seen[NKEYS]; static int g_cb_calls; static struct ref_map *g_cb_ref; static void *g_cb_user;
static void each_cb(const char *name, enum xcm_attr_type type, const void *value, size_t len, void *user)
{
    g_cb_calls++;
    CHECK(user == g_cb_user, "C19: foreach passes the user pointer through");
    int k = -1;
    for (int i = 0; i < NKEYS; i++) if (name[0] == alphabet[i][0] && name[1] == alphabet[i][1]) k = i;
    CHECK(k >= 0 && g_cb_ref->e[k].present, "C19: foreach visits only names that are in the map");
    if (k >= 0) {
	g_seen[k]++;
	CHECK(type == g_cb_ref->e[k].type && len == g_cb_ref->e[k].len, "C19: foreach reports the stored type and length");
	for (size_t i = 0; i < MM_ALLOC; i++) if (i < len) CHECK(((const uint8_t *)value)[i] == g_cb_ref->e[k].val[i], "C19: foreach reports the stored bytes");
    }
}

int main(void)
{
    struct ref_map ref, ref2;
    struct xcm_attr_map *m = build_map(&ref);
#ifdef OP_CREATE
    struct xcm_attr_map *e = xcm_attr_map_create();
    struct ref_map empty; for (int k = 0; k < NKEYS; k++) empty.e[k].present = false;
    check_agrees(e, &empty);
    check_agrees(m, &ref);     /* the harness-built map is a valid map (self-check of the builder) */
    WITNESS(xcm_attr_map_size(m) == NMAX, "arbitrary map with NMAX entries");
    xcm_attr_map_destroy(e);
#endif
#ifdef OP_ADD
    int k = (int)nd_range(0, NKEYS - 1);
    struct ref_entry nv; nv.present = true; nd_value(&nv);
    uint8_t valbuf[MM_ALLOC];
    for (size_t i = 0; i < MM_ALLOC; i++) valbuf[i] = nv.val[i];
    int how = (int)nd_range(0, 1);
    if (how == 0) xcm_attr_map_add(m, alphabet[k], nv.type, valbuf, nv.len);
    else switch (nv.type) {
	case xcm_attr_type_bool: xcm_attr_map_add_bool(m, alphabet[k], *(bool *)valbuf); ASSUME(valbuf[0] <= 1); break;
	case xcm_attr_type_int64: xcm_attr_map_add_int64(m, alphabet[k], *(int64_t *)valbuf); break;
	case xcm_attr_type_str: xcm_attr_map_add_str(m, alphabet[k], (char *)valbuf); ASSUME(strlen((char *)valbuf) + 1 == nv.len); break;
	case xcm_attr_type_bin: xcm_attr_map_add_bin(m, alphabet[k], valbuf, nv.len); break;
	default: xcm_attr_map_add(m, alphabet[k], nv.type, valbuf, nv.len); break;
    }
    bool was = ref.e[k].present;
    ref.e[k] = nv;
    valbuf[0] ^= 0xff;   /* the caller's buffer is not aliased */
    check_agrees(m, &ref);
    WITNESS(was && ref_size(&ref) == NMAX, "add replaced an existing name in a full map");
    WITNESS(!was && nv.type == xcm_attr_type_bin && nv.len == 0, "zero-length binary value added");
#endif
#ifdef OP_DEL
    int k = (int)nd_range(0, NKEYS - 1);
    bool was = ref.e[k].present;
    xcm_attr_map_del(m, alphabet[k]);
    ref.e[k].present = false;
    check_agrees(m, &ref);
    WITNESS(was && ref_size(&ref) == NMAX - 1, "deleted from a full map");
    WITNESS(!was, "delete of an absent name is a no-op");
#endif
#ifdef OP_CLONE
    struct xcm_attr_map *c = xcm_attr_map_clone(m);
    check_agrees(c, &ref);
    CHECK(xcm_attr_map_equal(m, c) && xcm_attr_map_equal(c, m), "C19: a clone equals its original");
    /* independence: mutate the clone, the original keeps its observables (and vice versa) */
    int k = (int)nd_range(0, NKEYS - 1);
    if (nd_bool()) xcm_attr_map_del(c, alphabet[k]); else xcm_attr_map_add_int64(c, alphabet[k], nd_i64());
    check_agrees(m, &ref);
    for (int i = 0; i < NKEYS; i++) {
	const void *vm = xcm_attr_map_get(m, alphabet[i], NULL, NULL), *vc = xcm_attr_map_get(c, alphabet[i], NULL, NULL);
	CHECK(vm == NULL || vm != vc, "C19: clone is a deep copy (no shared value storage)");
    }
    xcm_attr_map_destroy(c);
    check_agrees(m, &ref);
    WITNESS(ref_size(&ref) == NMAX, "cloned a full map");
#endif
#ifdef OP_EQUAL
    struct xcm_attr_map *m2 = build_map(&ref2);
    bool eq = xcm_attr_map_equal(m, m2), eq2 = xcm_attr_map_equal(m2, m);
    CHECK(eq == ref_equal(&ref, &ref2), "C19: equal <=> same names with same types, lengths and bytes, whatever the insertion order");
    CHECK(eq == eq2, "C19: equality is symmetric");
    WITNESS(eq && ref_size(&ref) == NMAX, "two equal full maps");
    WITNESS(!eq && ref_size(&ref) == ref_size(&ref2), "unequal maps of the same size");
    xcm_attr_map_destroy(m2);
#endif
#ifdef OP_FOREACH
    g_cb_ref = &ref; g_cb_user = &ref2;
    xcm_attr_map_foreach(m, each_cb, &ref2);
    CHECK((size_t)g_cb_calls == ref_size(&ref), "C19: foreach makes one call per entry");
    for (int k = 0; k < NKEYS; k++) CHECK(g_seen[k] == (ref.e[k].present ? 1 : 0), "C19: foreach visits every entry exactly once");
    WITNESS(g_cb_calls == NMAX, "foreach over a full map");
#endif
#ifdef OP_ADDALL
    struct xcm_attr_map *src = build_map(&ref2);
    xcm_attr_map_add_all(m, src);
    for (int k = 0; k < NKEYS; k++) if (ref2.e[k].present) ref.e[k] = ref2.e[k];
    check_agrees(m, &ref);
    check_agrees(src, &ref2);
    xcm_attr_map_add_all(src, src);
    check_agrees(src, &ref2);
    WITNESS(ref_size(&ref2) >= 2 && ref_size(&ref) == NMAX, "add_all merged several entries");
    xcm_attr_map_destroy(src);
#endif
#ifdef OP_DESTROY
    /* with --memory-leak-check: nothing of the map survives destroy */
    WITNESS(ref_size(&ref) == NMAX, "destroying a full map");
    xcm_attr_map_destroy(m);
    xcm_attr_map_destroy(NULL);
    m = NULL;
    return 0;
#endif
    xcm_attr_map_destroy(m);
    return 0;
}
