/* libxcm/tp/tls/ctx_store.c + item.c (real): the SSL_CTX cache keyed by a
 * digest over the designated credential items, over OPENSSL stubs (digest =
 * recorded byte transcript: "digest equal <=> transcript equal"; PEM/X509/
 * SSL_CTX loaders succeed or fail at the solver's choice) and a file-system
 * stub (stat tuples, file contents).  Serves C18 C08 C15.
 *  -DOP_KEY | OP_GET | OP_PUT | OP_BUNDLE
 */
#include "stubs.h"
#include <errno.h>
#include <string.h>
#include <sys/stat.h>
#include <openssl/ssl.h>
#include <openssl/err.h>
#include <openssl/pem.h>
#include <openssl/x509.h>

/* ---- digest contract: the transcript --------------------------------------------- */
#ifndef TMAX
#define TMAX 72
#endif
static uint8_t T[2][TMAX]; static unsigned Tlen[2]; static int cur;     /* two transcripts can be recorded and compared */
static struct { int d; } md_token;
EVP_MD_CTX *EVP_MD_CTX_new(void) { return (EVP_MD_CTX *)&md_token; }
void EVP_MD_CTX_free(EVP_MD_CTX *c) { (void)c; }
const EVP_MD *EVP_sha256(void) { return (const EVP_MD *)&md_token; }
int EVP_DigestInit_ex(EVP_MD_CTX *c, const EVP_MD *t, ENGINE *e) { (void)c; (void)t; (void)e; Tlen[cur] = 0; return 1; }
static bool same_tuple(const struct stat *a, const struct stat *b) { return a->st_ino == b->st_ino && a->st_size == b->st_size && a->st_mtim.tv_sec == b->st_mtim.tv_sec && a->st_mtim.tv_nsec == b->st_mtim.tv_nsec; }
static struct stat g_stat[2][2]; static int g_stat_look[2]; static bool g_uses_path[2];
int EVP_DigestUpdate(EVP_MD_CTX *c, const void *d, size_t n)
{
    (void)c;
#ifdef ABSTRACT_DIGEST
    (void)d; (void)n; return 1;      /* the digest is a function of the designation and the files' stat tuples (what OP_KEY_* establish) */
#endif
    for (size_t i = 0; i < 16; i++) if (i < n) { CHECK(Tlen[cur] < TMAX, "harness: transcript bound"); T[cur][Tlen[cur]++] = ((const uint8_t *)d)[i]; }
    CHECK(n <= 16, "harness: digest update chunk bound");
    return 1;
}
/* known transcripts -> digest values: equal transcripts give equal digests, different ones different digests */
#define VBUMPS 4
static int g_ver[2], g_loaded_ver[2], g_bumps;      /* ABSTRACT_DIGEST: file versions */
static uint8_t known_T[3][TMAX]; static unsigned known_len[3]; static int n_known;
int EVP_DigestFinal_ex(EVP_MD_CTX *c, unsigned char *md, unsigned int *s)
{
    (void)c;
#ifdef ABSTRACT_DIGEST
    {
	/* the digest is a function of the current VERSION of each file the designation names (a version = a stat tuple) */
	unsigned v = (g_uses_path[0] ? (unsigned)g_ver[0] : 0) + 8 * (g_uses_path[1] ? (unsigned)g_ver[1] : 0);
	for (int i = 0; i < 32; i++) md[i] = (unsigned char)(i == 0 ? 0xB0 + v : 0x22);
	*s = 32; return 1;
    }
#endif
    int id = -1;
    for (int k = 0; k < 3; k++) if (k < n_known && known_len[k] == Tlen[cur]) {
	bool eq = true; for (unsigned i = 0; i < TMAX; i++) if (i < Tlen[cur] && known_T[k][i] != T[cur][i]) eq = false;
	if (eq && id < 0) id = k;
    }
    if (id < 0) { CHECK(n_known < 3, "harness: digest table"); id = n_known++; known_len[id] = Tlen[cur]; for (unsigned i = 0; i < TMAX; i++) known_T[id][i] = T[cur][i]; }
    for (int i = 0; i < 32; i++) md[i] = (unsigned char)(i == 0 ? 0xA0 + id : 0x11);
    *s = 32;
    return 1;
}

/* ---- file system stub: per path a stat tuple, which may change between two looks ----- */
static bool g_stat_fail[2]; static bool g_is_link[2]; static struct stat g_tstat[2][2];      /* g_stat[path id][look], g_stat_look: above */
static int path_id(const char *p) { return p[0] == 'q' ? 1 : 0; }
static int do_stat(const char *p, struct stat *st, bool follow)
{
    int id = path_id(p);
    if (g_stat_fail[id]) { errno = ENOENT; return -1; }
    int look = g_stat_look[id] < 2 ? g_stat_look[id] : 1;
    *st = g_stat[id][look];
    st->st_mode = (!follow && g_is_link[id]) ? S_IFLNK : S_IFREG;
    if (follow && g_is_link[id]) { *st = g_tstat[id][look]; st->st_mode = S_IFREG; }     /* the link's target has its own tuple */
    return 0;
}
int stat(const char *p, struct stat *st) { return do_stat(p, st, true); }
int lstat(const char *p, struct stat *st) { return do_stat(p, st, false); }
static int g_load_calls; static bool g_load_fail; static int g_load_errno;
ssize_t ut_load_text_file(const char *fn, char **data)
{
    g_load_calls++;
    g_stat_look[path_id(fn)]++;            /* the file may be replaced while it is being read */
    g_loaded_ver[path_id(fn)] = g_ver[path_id(fn)];
    if (g_bumps < VBUMPS && nd_bool()) { g_ver[path_id(fn)]++; g_bumps++; }     /* ... any number of times in a row (bounded by VBUMPS) */
    if (g_load_fail) { errno = g_load_errno; return -1; }
    char *d = malloc(4); ASSUME(d != NULL); d[0] = 'P'; d[1] = fn[0]; d[2] = 0; *data = d; return 3;
}

/* ---- SSL_CTX / PEM / X509 stubs ----------------------------------------------------- */
static struct { int d; } ctx_obj[3], bio_token, x_token, store_token, key_token, crl_token, meth_token;
static int g_ctx_new, g_ctx_free; static SSL_CTX *g_freed[4];
const SSL_METHOD *TLS_method(void) { return (const SSL_METHOD *)&meth_token; }
SSL_CTX *SSL_CTX_new(const SSL_METHOD *m) { (void)m; CHECK(g_ctx_new < 3, "harness"); return (SSL_CTX *)&ctx_obj[g_ctx_new++]; }
void SSL_CTX_free(SSL_CTX *c) { if (c != NULL) { if (g_ctx_free < 4) g_freed[g_ctx_free] = c; g_ctx_free++; } }
uint64_t SSL_CTX_set_options(SSL_CTX *c, uint64_t o) { (void)c; return o; }
uint64_t SSL_CTX_clear_options(SSL_CTX *c, uint64_t o) { (void)c; return o; }
int SSL_CTX_set_cipher_list(SSL_CTX *c, const char *s) { (void)c; (void)s; return 1; }
int SSL_CTX_set_ciphersuites(SSL_CTX *c, const char *s) { (void)c; (void)s; return 1; }
long SSL_CTX_ctrl(SSL_CTX *c, int cmd, long l, void *p) { (void)c; (void)cmd; (void)l; (void)p; return 1; }
BIO *BIO_new_mem_buf(const void *b, int l) { (void)b; (void)l; return (BIO *)&bio_token; }
int BIO_free(BIO *b) { (void)b; return 1; }
/* a PEM bundle: entries 0..g_bundle_n-1 parse, then the reader stops: at a clean end (NO_START_LINE) or at a damaged entry */
static int g_bundle_n, g_bundle_pos; static bool g_bundle_damaged_tail; static unsigned long g_last_err;
static void *bundle_next(void *obj)
{
    if (g_bundle_pos < g_bundle_n) { g_bundle_pos++; return obj; }
    g_last_err = g_bundle_damaged_tail ? ERR_PACK(ERR_LIB_PEM, 0, PEM_R_BAD_BASE64_DECODE) : ERR_PACK(ERR_LIB_PEM, 0, PEM_R_NO_START_LINE);
    return NULL;
}
static int g_chain_reads;
X509 *PEM_read_bio_X509(BIO *b, X509 **x, pem_password_cb *cb, void *u) { (void)b; (void)x; (void)cb; (void)u; if (g_chain_reads++ < 2 && nd_bool()) return (X509 *)&x_token; g_last_err = ERR_PACK(ERR_LIB_PEM, 0, PEM_R_NO_START_LINE); return NULL; }
void log_tls_get_error_stack(char *buf, size_t cap) { if (cap) buf[0] = 0; }
/* snprintf is used by the (disabled) debug-log macros of log_tls.h only: formatting stub */
int snprintf(char *b, size_t n, const char *f, ...) { (void)f; if (n) b[0] = 0; return 0; }
void hash_description(uint8_t *hash, size_t hash_len, char *buf) { (void)hash; (void)hash_len; buf[0] = 0; }
void ut_aprintf(char *buf, size_t cap, const char *fmt, ...) { (void)fmt; if (cap) buf[0] = 0; }
X509 *PEM_read_bio_X509_AUX(BIO *b, X509 **x, pem_password_cb *cb, void *u) { (void)b; (void)x; (void)cb; (void)u; return bundle_next(&x_token); }
X509_CRL *PEM_read_bio_X509_CRL(BIO *b, X509_CRL **x, pem_password_cb *cb, void *u) { (void)b; (void)x; (void)cb; (void)u; return bundle_next(&crl_token); }
EVP_PKEY *PEM_read_bio_PrivateKey(BIO *b, EVP_PKEY **x, pem_password_cb *cb, void *u) { (void)b; (void)x; (void)cb; (void)u; return nd_bool() ? (EVP_PKEY *)&key_token : NULL; }
unsigned long ERR_peek_last_error(void) { return g_last_err; }
void ERR_clear_error(void) { g_last_err = 0; }
void X509_free(X509 *x) { (void)x; }
void X509_CRL_free(X509_CRL *x) { (void)x; }
void EVP_PKEY_free(EVP_PKEY *k) { (void)k; }
int SSL_CTX_use_certificate(SSL_CTX *c, X509 *x) { (void)c; (void)x; return nd_bool() ? 1 : 0; }
int SSL_CTX_use_PrivateKey(SSL_CTX *c, EVP_PKEY *k) { (void)c; (void)k; return nd_bool() ? 1 : 0; }
static bool g_key_matches;
int SSL_CTX_check_private_key(const SSL_CTX *c) { (void)c; return g_key_matches ? 1 : 0; }
X509_STORE *SSL_CTX_get_cert_store(const SSL_CTX *c) { (void)c; return (X509_STORE *)&store_token; }
int X509_STORE_add_cert(X509_STORE *s, X509 *x) { (void)s; (void)x; return nd_bool() ? 1 : 0; }
int X509_STORE_add_crl(X509_STORE *s, X509_CRL *x) { (void)s; (void)x; return nd_bool() ? 1 : 0; }
static unsigned long g_store_flags; int X509_STORE_set_flags(X509_STORE *s, unsigned long f) { (void)s; g_store_flags |= f; return 1; }

/* poisoning mutex stubs (C15) */
static int g_held, g_lock_calls, g_unlock_calls;
void ut_mutex_init(pthread_mutex_t *m) { (void)m; }
void ut_mutex_lock(pthread_mutex_t *m) { (void)m; CHECK(g_held == 0, "C15: no double lock of the context cache"); g_held = 1; g_lock_calls++; }
void ut_mutex_unlock(pthread_mutex_t *m) { (void)m; CHECK(g_held == 1, "C15: unlock only what is held"); g_held = 0; g_unlock_calls++; }
void ut_mem_exhausted(void) { abort(); }
void *ut_malloc(size_t n) { void *p = malloc(n); ASSUME(p != NULL); return p; }
void ut_free(void *p) { free(p); }
char *ut_strdup(const char *s) { char *p = malloc(4); ASSUME(p != NULL); p[0] = s[0]; p[1] = s[0] ? s[1] : 0; p[2] = (s[0] && s[1]) ? s[2] : 0; p[3] = 0; return p; }
char *ut_strndup(const char *s, size_t n) { char *p = ut_strdup(s); if (n < 3) p[n] = 0; return p; }

#include "item.c"
#include "ctx_store.c"

/* a designation: four items of any kind; data strings of 1..2 characters; 'p..'/'q..' are the two paths */
static void nd_item(struct item *it, bool allow_file)
{
    int kind = (int)nd_range(0, allow_file ? 2 : 1); if (kind == 1 && !allow_file) kind = 2;
    it->type = kind == 0 ? item_type_none : (kind == 1 ? item_type_file : item_type_value); it->sensitive = false; it->data = NULL;
    if (kind != 0) {
	it->data = malloc(4); ASSUME(it->data != NULL);
	it->data[0] = kind == 1 ? (nd_bool() ? 'p' : 'q') : (char)nd_range('a', 'c');
	it->data[1] = nd_bool() ? 0 : (char)nd_range('a', 'c'); it->data[2] = 0;
    }
}
static bool item_same(const struct item *a, const struct item *b)
{ return a->type == b->type && (a->type == item_type_none || (a->data[0] == b->data[0] && a->data[1] == b->data[1])); }
static void nd_fs(void)
{
    for (int p = 0; p < 2; p++) { g_stat_fail[p] = false; g_is_link[p] = 
#ifdef NO_LINK
 false;
#else
 nd_bool();
#endif
 for (int l = 0; l < 2; l++) { g_stat[p][l].st_dev = 1; g_stat[p][l].st_ino = (ino_t)nd_range(1, 3); g_stat[p][l].st_size = (off_t)nd_range(1, 3); g_stat[p][l].st_mtim.tv_sec = nd_range(1, 3); g_stat[p][l].st_mtim.tv_nsec = nd_range(0, 1); } }
}

#ifdef OP_KEY
/* KEY-INJ: designations that differ in any item never share a cache key */
int main(void)
{
    struct item a[4], b[4]; uint8_t ha[32], hb[32];
#ifdef KEY_FILE
    /* one item by file or by value (paths p/q with arbitrary stat tuples), the others absent */
    nd_item(&a[0], true); nd_item(&b[0], true);
    for (int i = 1; i < 4; i++) { a[i].type = b[i].type = item_type_none; a[i].data = b[i].data = NULL; }
#else
    /* four items, each absent or by value */
    for (int i = 0; i < 4; i++) { nd_item(&a[i], false); nd_item(&b[i], false); }
#endif
    nd_fs();
    cur = 0; int ra = get_credentials_hash(&a[0], &a[1], &a[2], &a[3], ha, NULL);
    cur = 1; int rb = get_credentials_hash(&b[0], &b[1], &b[2], &b[3], hb, NULL);
    ASSUME(ra == 0 && rb == 0);
    bool same_designation = item_same(&a[0], &b[0]) && item_same(&a[1], &b[1]) && item_same(&a[2], &b[2]) && item_same(&a[3], &b[3]);
#ifdef KEY_FILE
    /* files in the same state: both transcripts were taken at look 0 */
#endif
    bool same_key = hash_equal(ha, hb);
    if (same_designation) CHECK(same_key, "C18: the same designation (same files in the same state, same values) maps to the same cached context");
    else CHECK(!same_key, "C18: configurations that differ in any item - which item, by file or by value, path, value - never share a cached TLS context (material is never mixed)");
#ifdef KEY_FILE
    WITNESS(!same_designation && a[0].type == item_type_file && b[0].type == item_type_value, "by file versus by value");
#endif
#ifndef KEY_FILE
    WITNESS(!same_designation && a[2].type == item_type_value && b[2].type == item_type_value && a[3].type != b[3].type, "trusted-CA and CRL items split differently");
#else
#endif
    return 0;
}
#endif

#ifdef OP_KEY_CHANGE
/* the same by-file designation in two file-system states: the key changes iff the file - the path itself or, for a
 * symbolic link, its target - changed (size, inode or modification time) */
int main(void)
{
    struct item it; it.type = item_type_file; it.sensitive = false; it.data = malloc(4); ASSUME(it.data != NULL); it.data[0] = 'p'; it.data[1] = 0;
    struct item none; none.type = item_type_none; none.data = NULL;
    nd_fs();
    for (int l = 0; l < 2; l++) { g_tstat[0][l].st_dev = 1; g_tstat[0][l].st_ino = (ino_t)nd_range(4, 6); g_tstat[0][l].st_size = (off_t)nd_range(1, 3); g_tstat[0][l].st_mtim.tv_sec = nd_range(1, 3); g_tstat[0][l].st_mtim.tv_nsec = nd_range(0, 1); }
    uint8_t h0[32], h1[32];
    g_stat_look[0] = 0; cur = 0; int r0 = get_credentials_hash(&it, &none, &none, &none, h0, NULL);
    g_stat_look[0] = 1; cur = 1; int r1 = get_credentials_hash(&it, &none, &none, &none, h1, NULL);
    ASSUME(r0 == 0 && r1 == 0);
    bool unchanged = same_tuple(&g_stat[0][0], &g_stat[0][1]) && (!g_is_link[0] || same_tuple(&g_tstat[0][0], &g_tstat[0][1]));
    CHECK(hash_equal(h0, h1) == unchanged, "C18: replacing a credential file - rewriting it, renaming over it, or re-pointing/rewriting the target of a symbolic link - changes the cache key, so later connections do not get the old material; an untouched file keeps its cached context");
    WITNESS(g_is_link[0] && same_tuple(&g_stat[0][0], &g_stat[0][1]) && !unchanged, "symbolic link untouched, its target replaced");
    return 0;
}
#endif

#ifdef OP_GET
/* one ctx_store_get_ctx from an arbitrary cache of <= 2 entries */
int main(void)
{
    struct item it[4];
    for (int i = 0; i < 4; i++) nd_item(&it[i], i == 0);
    ASSUME(it[0].type != item_type_none && it[1].type != item_type_none);
    nd_fs();
    if (it[0].type == item_type_file) g_uses_path[path_id(it[0].data)] = true;
    ctx_store_init();
    /* pre-existing entries: one with the digest this designation has now (or not), one unrelated */
    uint8_t h0[32]; cur = 0; int r0 = get_credentials_hash(&it[0], &it[1], &it[2], &it[3], h0, NULL);
    bool have_hit = nd_bool() && r0 == 0;
    static struct { int d; } old_ctx, other_ctx;
    struct cache_entry *hit = NULL;
    if (have_hit) { hit = cache_install(&cache, h0, (SSL_CTX *)&old_ctx); hit->use_cnt = (int)nd_range(1, 5); }
    uint8_t hx[32]; memset(hx, 0x77, 32); struct cache_entry *other = cache_install(&cache, hx, (SSL_CTX *)&other_ctx); other->use_cnt = 2;
    int hit_cnt = hit ? hit->use_cnt : 0;
    g_load_fail = nd_bool(); g_load_errno = nd_bool() ? EACCES : EISDIR;
    g_bundle_n = (int)nd_range(0, 2); g_bundle_damaged_tail = nd_bool(); g_key_matches = nd_bool();
    g_stat_look[0] = g_stat_look[1] = 0;
    errno = 0;
    SSL_CTX *c = ctx_store_get_ctx(&it[0], &it[1], &it[2], &it[3], NULL);
    int e = errno;
    CHECK(g_held == 0 && g_lock_calls == g_unlock_calls, "C15: the cache lock is released on every path");
    if (have_hit) {
	CHECK(c == (SSL_CTX *)&old_ctx && hit->use_cnt == hit_cnt + 1 && g_ctx_new == 0 && g_load_calls == 0, "C18: an unchanged designation reuses its cached context (use count + 1), nothing is re-read");
    } else if (c != NULL) {
	CHECK(c != (SSL_CTX *)&other_ctx && c != (SSL_CTX *)&old_ctx, "C18: a cache hit only for an identical designation");
	CHECK(g_ctx_new == 1 && g_ctx_free == 0, "C18: a new designation gets a freshly loaded context");
	struct cache_entry *en = cache_find_entry(&cache, c);
	CHECK(en != NULL && en->use_cnt == 1, "C18: the new context is cached with one user");
	CHECK(g_key_matches, "C18: certificate and key that do not match are refused");
	if (it[2].type != item_type_none) CHECK(g_bundle_n >= 1 && !g_bundle_damaged_tail, "C18: a trusted-CA bundle is accepted only if every entry of it parses (a damaged or truncated tail is malformed material)");
	WITNESS(it[0].type == item_type_file && g_stat_look[0] + g_stat_look[1] >= 2, "a credential file changed while being loaded: loop re-read it");
#ifdef ABSTRACT_DIGEST
	{ unsigned lv = (g_uses_path[0] ? (unsigned)g_loaded_ver[0] : 0) + 8 * (g_uses_path[1] ? (unsigned)g_loaded_ver[1] : 0);
	  CHECK(en->hash[0] == (uint8_t)(0xB0 + lv), "C18: a context is cached under the key of exactly the material it was built from - however often the files were replaced while it was being loaded (otherwise later sockets get credentials that the files, stable since, do not contain)");
	  WITNESS(g_bumps >= 3, "credential file replaced three times in a row while loading"); }
#endif
    } else {
	CHECK(e == EPROTO, "C18: missing, unreadable, malformed or mismatching material fails with EPROTO");
	CHECK(g_ctx_free == g_ctx_new, "C08: a context that could not be completed is freed; nothing is cached or leaked");
	WITNESS(g_load_fail && g_load_calls > 0, "unreadable credential file");
    }
    CHECK(other->use_cnt == 2, "C18: other designations' contexts are untouched");
    return 0;
}
#endif

#ifdef OP_PUT
int main(void)
{
    ctx_store_init();
    static struct { int d; } c0, c1;
    uint8_t h0[32], h1[32]; memset(h0, 1, 32); memset(h1, 2, 32);
    struct cache_entry *e0 = cache_install(&cache, h0, (SSL_CTX *)&c0), *e1 = cache_install(&cache, h1, (SSL_CTX *)&c1);
    e0->use_cnt = (int)nd_range(1, 3); e1->use_cnt = (int)nd_range(1, 3);
    int n0 = e0->use_cnt;
    ctx_store_put((SSL_CTX *)&c0);
    CHECK(g_held == 0 && g_lock_calls == 1 && g_unlock_calls == 1, "C15: one balanced critical section");
    if (n0 == 1) { CHECK(g_ctx_free == 1 && g_freed[0] == (SSL_CTX *)&c0 && cache_find_entry(&cache, (SSL_CTX *)&c0) == NULL, "C18,C08: a cached context is released exactly when the last socket using it is closed"); }
    else CHECK(g_ctx_free == 0 && e0->use_cnt == n0 - 1, "C18: otherwise only its use count drops");
    CHECK(cache_find_entry(&cache, (SSL_CTX *)&c1) == e1, "C18: other contexts stay cached");
    WITNESS(n0 == 1, "last user gone: context freed");
    return 0;
}
#endif
