/* libxcm/core/xcm.c (real): the public life-cycle entry points xcm_connect_a,
 * xcm_server_a, xcm_accept_a, xcm_close, xcm_cleanup over a TYPESTATE mock of
 * the transport layer (xcm_tp.h contract) and ghost xpoll / attribute-tree
 * objects.  Every step may fail: xpoll creation (epoll_create1 EMFILE), an
 * attribute of the creation-time map being refused, the transport's
 * connect/server/accept, the blocking finish, a signal during the blocking
 * wait.  Serves C08 C05 C04.
 *  -DOP_LIFE_CONNECT | OP_LIFE_SERVER | OP_LIFE_ACCEPT
 */
#include "stubs.h"
#include "xcm.c"
#include <poll.h>

enum ts { ts_none, ts_created, ts_inited, ts_open, ts_failed_clean, ts_closed, ts_destroyed };
struct tsock { struct xcm_socket s; enum ts st; int closes, cleanups, destroys; struct xpoll *xp; };
#define NS 4
static struct tsock socks[NS]; static int n_socks;
static struct tsock *ts_of(struct xcm_socket *s) { for (int i = 0; i < NS; i++) if (s == &socks[i].s) return &socks[i]; CHECK(0, "C08: only sockets the library created are operated on"); return &socks[0]; }
static struct xcm_tp_proto the_proto = { "p", NULL };
static bool g_known_proto;
struct xcm_tp_proto *xcm_tp_proto_by_addr(const char *a) { (void)a; if (!g_known_proto) { errno = ENOPROTOOPT; return NULL; } return &the_proto; }
bool xcm_tp_socket_is_bytestream(struct xcm_socket *s) { (void)s; return nd_bool(); }
struct xcm_socket *xcm_tp_socket_create(const struct xcm_tp_proto *p, enum xcm_socket_type t, struct xpoll *x, bool c, bool u, bool b)
{ (void)c; (void)u; CHECK(p == &the_proto && x == NULL, "harness"); CHECK(n_socks < NS, "harness: socket table");
  struct tsock *k = &socks[n_socks++]; k->st = ts_created; k->s.type = t; k->s.proto = p; k->s.is_blocking = b; k->s.xpoll = NULL; return &k->s; }
int xcm_tp_socket_init(struct xcm_socket *s, struct xcm_socket *parent) { (void)parent; struct tsock *k = ts_of(s); CHECK(k->st == ts_created && s->xpoll != NULL, "C08: init on a fresh socket that has its xpoll"); k->st = ts_inited; return 0; }
static int g_accept_eagain;
static int open_op(struct xcm_socket *s, bool may_eagain)
{
    struct tsock *k = ts_of(s);
    CHECK(k->st == ts_inited, "C08: connect/server/accept on an initialised, unused socket");
    if (nd_bool()) { k->st = ts_open; return 0; }
    k->st = ts_failed_clean;
    if (may_eagain && g_accept_eagain < 1 && nd_bool()) { g_accept_eagain++; errno = EAGAIN; }   /* bounded: the backlog is empty at most once */
    else errno = nd_bool() ? EMFILE : ECONNREFUSED;
    return -1;
}
int xcm_tp_socket_connect(struct xcm_socket *s, const char *a) { (void)a; return open_op(s, false); }
int xcm_tp_socket_server(struct xcm_socket *s, const char *a) { (void)a; return open_op(s, false); }
static int g_accept_calls;
int xcm_tp_socket_accept(struct xcm_socket *c, struct xcm_socket *srv) { g_accept_calls++; CHECK(ts_of(srv)->st == ts_open, "C08: accept on an open server socket"); return open_op(c, true); }
void xcm_tp_socket_close(struct xcm_socket *s) { if (s == NULL) return; struct tsock *k = ts_of(s); CHECK(k->st == ts_inited || k->st == ts_open, "C08: the transport is closed only while initialised/open - never after its connect/server/accept failed (it already cleaned up), never twice"); k->st = ts_closed; k->closes++; }
void xcm_tp_socket_cleanup(struct xcm_socket *s) { if (s == NULL) return; struct tsock *k = ts_of(s); CHECK(k->st == ts_inited || k->st == ts_open, "C08: cleanup only on an initialised/open socket"); k->st = ts_closed; k->cleanups++; }
void xcm_tp_socket_destroy(struct xcm_socket *s) { if (s == NULL) return; struct tsock *k = ts_of(s); CHECK(k->st == ts_created || k->st == ts_closed || k->st == ts_failed_clean, "C08: a socket is destroyed only when unused, closed/cleaned up, or after its connect/server/accept failed - an open one would leak its descriptors"); k->st = ts_destroyed; k->destroys++; }
static int g_finish_calls, g_eagain; static bool g_finish_hard;
int xcm_tp_socket_finish(struct xcm_socket *s)
{
    CHECK(ts_of(s)->st == ts_open, "C08: the transport is asked to finish outstanding work only on a connected/accepted socket (on a merely initialised one the transports abort)"); g_finish_calls++;
    int m = (int)nd_range(0, 2); if (m == 1 && g_eagain >= 2) m = 0;
    if (m == 1) { g_eagain++; errno = nd_bool() ? EAGAIN : EINPROGRESS; return -1; }
    if (m == 2) { g_finish_hard = true; errno = ECONNREFUSED; return -1; }
    return 0;
}
static int g_updates;
void xcm_tp_socket_update(struct xcm_socket *s) { (void)s; g_updates++; }
/* xpoll objects */
static struct { int d; } xp_tok[NS]; static int g_xp_live, g_xp_creates; static bool g_xp_fail_at[NS];
struct xpoll *xpoll_create(void *log_ref) { (void)log_ref; int i = g_xp_creates++; CHECK(i < NS, "harness"); if (g_xp_fail_at[i]) { errno = EMFILE; return NULL; } g_xp_live++; return (struct xpoll *)&xp_tok[i]; }
void xpoll_destroy(struct xpoll *x) { if (x == NULL) return; CHECK(g_xp_live > 0, "C08: an xpoll instance is destroyed once"); g_xp_live--; }
int xpoll_get_fd(struct xpoll *x) { (void)x; return 7; }
static int g_polls; static bool g_signal;
int poll(struct pollfd *f, nfds_t n, int timeout)
{ (void)f; (void)n; g_polls++; CHECK(timeout == -1 || timeout == 0, "harness");
  CHECK(g_updates > 0, "C04: the awaited condition was pushed to the transport before waiting");
  if (nd_bool()) { g_signal = true; errno = EINTR; return -1; } return 1; }
/* attribute tree + creation-time attribute map */
static struct { int d; } tree_tok; static int g_tree_live; static bool g_attr_refused; static int g_sets;
struct attr_tree *attr_tree_create(void) { g_tree_live++; return (struct attr_tree *)&tree_tok; }
void attr_tree_destroy(struct attr_tree *t) { (void)t; g_tree_live--; }
void xcm_tp_common_attr_populate(struct xcm_socket *s, struct attr_tree *t) { (void)s; (void)t; }
void xcm_tp_socket_attr_populate(struct xcm_socket *s, struct attr_tree *t) { (void)s; (void)t; }
int attr_tree_set_value(struct attr_tree *t, const char *name, enum xcm_attr_type type, const void *v, size_t l, void *ctx)
{ (void)t; (void)type; (void)l; g_sets++; struct xcm_socket *s = ctx;
  CHECK(ts_of(s)->st == ts_inited, "C11: creation-time attributes are applied after init and before connect/server/accept");
  if (nd_bool()) { g_attr_refused = true; errno = nd_bool() ? EINVAL : EACCES; return -1; }
  if (strcmp(name, XCM_ATTR_XCM_BLOCKING) == 0) return xcm_set_blocking(s, *(const bool *)v);      /* what set_blocking_attr (xcm_tp.c, tp.service) does: the real xcm_set_blocking */
  return 0; }
static struct { int d; } map_tok; static bool g_map_blocking_val, g_map_has_blocking, g_map_has_service;
/* the mock map holds any subset of { xcm.blocking, xcm.service } and one other attribute */
bool xcm_attr_map_exists(const struct xcm_attr_map *m, const char *n)
{ return m != NULL && ((g_map_has_blocking && strcmp(n, XCM_ATTR_XCM_BLOCKING) == 0) || (g_map_has_service && strcmp(n, XCM_ATTR_XCM_SERVICE) == 0)); }
void xcm_attr_map_foreach(const struct xcm_attr_map *m, xcm_attr_map_foreach_cb cb, void *u)
{ (void)m; if (g_map_has_service) cb(XCM_ATTR_XCM_SERVICE, xcm_attr_type_str, "any", 4, u);
  if (g_map_has_blocking) cb(XCM_ATTR_XCM_BLOCKING, xcm_attr_type_bool, &g_map_blocking_val, sizeof(bool), u); cb("x", xcm_attr_type_bool, &g_map_blocking_val, sizeof(bool), u); }
const char *xcm_version(void) { return "v"; }
const char *xcm_version_api(void) { return "a"; }

static void nothing_left(int from)
{
    for (int i = 0; i < NS; i++) if (i >= from && i < n_socks) {
	CHECK(socks[i].st == ts_destroyed && socks[i].destroys == 1, "C08: every socket object the call created is destroyed exactly once when the call fails or the socket is closed");
	CHECK(socks[i].closes + socks[i].cleanups <= 1, "C08: ... and its transport closed at most once");
    }
    CHECK(g_tree_live == 0, "C08: attribute trees built for creation-time attributes are freed");
}

int main(void)
{
    g_known_proto = nd_bool();
    for (int i = 0; i < NS; i++) g_xp_fail_at[i] = nd_bool();
    const struct xcm_attr_map *attrs = nd_bool() ? NULL : (const struct xcm_attr_map *)&map_tok;
    g_map_blocking_val = nd_bool(); g_map_has_blocking = attrs != NULL && nd_bool(); g_map_has_service = attrs != NULL && nd_bool();
    bool want_nonblocking = g_map_has_blocking && !g_map_blocking_val;
    errno = 0;
#ifdef OP_LIFE_ACCEPT
    /* a serving socket */
    struct tsock *srv = &socks[n_socks++]; srv->st = ts_open; srv->s.type = xcm_socket_type_server; srv->s.proto = &the_proto;
    srv->s.is_blocking = nd_bool(); static struct { int d; } srv_xp; srv->s.xpoll = (struct xpoll *)&srv_xp;
    bool srv_blocking = srv->s.is_blocking;
    struct xcm_socket *s = xcm_accept_a(&srv->s, attrs);
    int first = 1;
    CHECK(srv->st == ts_open && srv->destroys == 0 && srv->closes == 0, "C08: accepting (or failing to) leaves the server socket alone");
    if (!srv_blocking) CHECK(g_polls == 0, "C05: xcm_accept on a non-blocking server socket never waits");
    if (!srv_blocking) CHECK(g_accept_calls <= 1, "C05: ... and asks the transport once");
#elif defined(OP_LIFE_SERVER)
    struct xcm_socket *s = xcm_server_a("p:x", attrs);
    int first = 0;
    CHECK(g_polls == 0 && g_finish_calls == 0, "C05: creating a server socket never waits");
#else
    struct xcm_socket *s = xcm_connect_a("p:x", attrs);
    int first = 0;
    if (want_nonblocking && !g_attr_refused) CHECK(g_polls == 0 && g_finish_calls == 0, "C05: xcm_connect_a with xcm.blocking=false returns without waiting for the connection to be established");
#endif
    if (s == NULL) {
	nothing_left(first);
	CHECK(g_xp_live == 0, "C08: the epoll instance of a socket that was not returned is closed");
	CHECK(errno != 0, "C08: failure is reported through NULL and errno");
	WITNESS(g_attr_refused && n_socks > first && socks[first].closes == 1, "creation-time attribute refused: initialised transport closed");
	WITNESS(n_socks > first && socks[first].closes == 0 && socks[first].destroys == 1 && !g_attr_refused && g_xp_creates > 0 && !g_xp_fail_at[0], "transport connect/server/accept failed: not closed again");
	WITNESS(g_xp_fail_at[0] && n_socks > first, "epoll_create1 failed: bare socket object destroyed");
#ifndef OP_LIFE_SERVER
	WITNESS(g_signal || g_finish_hard, "blocking establishment interrupted or refused: open transport closed");
#endif
    } else {
	struct tsock *k = ts_of(s);
	CHECK(k->st == ts_open && g_xp_live == 1, "C08: a returned socket is open and owns exactly one epoll instance");
	CHECK(k == &socks[n_socks - 1], "C08: ... and is the only socket object left from this call");
#ifdef OP_LIFE_ACCEPT
	CHECK(s->is_blocking == (g_map_has_blocking ? g_map_blocking_val : srv_blocking), "C11: an accepted connection has the mode given in xcm_accept_a's attributes, else the server socket's - whatever else the attribute map holds");
	WITNESS(g_map_has_service && !g_map_has_blocking && !srv_blocking, "accept attributes with xcm.service but without xcm.blocking on a non-blocking server");
#elif defined(OP_LIFE_CONNECT)
	CHECK(s->is_blocking == (g_map_has_blocking ? g_map_blocking_val : true), "C11: a connection has the mode given in xcm_connect_a's attributes, else blocking");
#endif
	nothing_left(n_socks);                       /* vacuous range, checks trees */
	for (int i = first; i < NS; i++) if (i < n_socks - 1) CHECK(socks[i].st == ts_destroyed, "C08: socket objects of earlier rounds of a blocking accept are destroyed");
	if (nd_bool()) { CHECK(xcm_close(s) == 0, "C08: xcm_close succeeds"); CHECK(k->closes == 1 && k->cleanups == 0, "C08: xcm_close closes the transport"); }
	else { xcm_cleanup(s); CHECK(k->closes == 0 && k->cleanups == 1, "C08: xcm_cleanup never closes: the owner's connection, files and peer stay untouched"); }
	nothing_left(first);
	CHECK(g_xp_live == 0, "C08: the epoll instance is closed with the socket");
	WITNESS(k->cleanups == 1, "cleaned up in a forked child");
#ifdef OP_LIFE_ACCEPT
	WITNESS(n_socks == 3, "a blocking accept went a second round after EAGAIN");
#endif
    }
    return 0;
}
