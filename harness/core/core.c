/* libxcm/core/xcm.c: the public send/receive/finish/await/set_blocking entry
 * points over a MESSAGING / BYTESTREAM contract mock of the transport and a
 * poll() stub that may be interrupted by a signal.  Serves C01 C02 C03 C04 C05 C16.
 *
 * -DOP_MSEND_B   blocking xcm_send on a messaging socket
 * -DOP_BSEND_B   blocking xcm_send on a byte-stream socket
 * -DOP_RECV_B    blocking xcm_receive
 * -DOP_SETBLOCK  xcm_set_blocking(false->true): finishes outstanding work
 * -DOP_NB        any of send/receive/finish/await/fd/set_blocking(false) on a non-blocking socket
 * -DRMAX=n       the mock answers EAGAIN at most n times (bounded liveness)
 */
#include "stubs.h"
#include "xcm.c"
#include <poll.h>

#ifndef RMAX
#define RMAX 2
#endif

static struct xcm_socket sock;
static struct xpoll *const the_xpoll = (struct xpoll *)&sock; /* opaque token */
#define XFD 7

/* ghost state */
static char appbuf[70000];
static bool g_may_block;   /* the one call documented to wait even on a non-blocking socket: xcm_set_blocking(true) */
static bool g_bytestream;
static const void *g_buf; static size_t g_len;     /* the application's buffer */
static size_t g_accepted_bytes;                    /* byte-stream: bytes accepted in this xcm_send */
static int g_accepted_msgs;                        /* messaging: times the message was accepted */
static int g_send_calls, g_recv_calls, g_finish_calls, g_update_calls, g_poll_calls;
static int g_partial;
static bool g_finish_failed_hard;
static int g_eagain;                               /* EAGAIN answers so far */
static int g_last_finish_rc = 1;
static int g_last_errno;
static bool g_dead;                                /* transport reported a hard error */
static int g_last_update_condition = -1;
static bool g_interrupted;                         /* poll returned EINTR */
static int g_recv_rc, g_recv_errno;

static const int hard_errnos[] = { EPIPE, ECONNRESET, ETIMEDOUT, EHOSTUNREACH, ENETUNREACH, ECONNREFUSED, EPROTO };
static int nd_hard_errno(void) { return hard_errnos[nd_range(0, 6)]; }

bool xcm_tp_socket_is_bytestream(struct xcm_socket *s) { (void)s; return g_bytestream; }

int xcm_tp_socket_send(struct xcm_socket *s, const void *buf, size_t len)
{
    CHECK(s == &sock, "C01: the operation goes to the socket the application named");
    g_send_calls++;
    if (!g_bytestream) {
	CHECK(buf == g_buf && len == g_len, "C01,C03: every retry offers the same message (same buffer, same length)");
	CHECK(g_accepted_msgs == 0, "C03: a message the transport accepted is never offered again (no duplicate)");
    } else {
	CHECK(buf == (const char *)g_buf + g_accepted_bytes, "C02: a retry continues exactly after the bytes already accepted");
	CHECK(len == g_len - g_accepted_bytes, "C02: a retry offers exactly the bytes not yet accepted");
    }
    CHECK(!g_dead, "C06: no further send after the transport reported a hard error");
    int mode = (int)nd_range(0, 2);
    if (mode == 1 && g_eagain >= RMAX)
	mode = 0;
    if (mode == 1) { g_eagain++; errno = g_last_errno = EAGAIN; return -1; }
    if (mode == 2) { g_dead = true; errno = g_last_errno = nd_hard_errno(); return -1; }
    if (!g_bytestream) { g_accepted_msgs++; return 0; }
    size_t acc = (size_t)nd_range(1, (long long)len);
    if (acc < len && g_partial >= RMAX) acc = len;   /* bounded liveness: after RMAX partial writes everything is taken */
    if (acc < len) g_partial++;
    g_accepted_bytes += acc;
    return (int)acc;
}

int xcm_tp_socket_receive(struct xcm_socket *s, void *buf, size_t capacity)
{
    CHECK(s == &sock, "C01: the operation goes to the socket the application named");
    CHECK(buf == g_buf && capacity == g_len, "C01,C02: receive passes the application's buffer and capacity unchanged");
    g_recv_calls++;
    int mode = (int)nd_range(0, 2);
    if (mode == 1 && g_eagain >= RMAX)
	mode = 0;
    if (mode == 1) { g_eagain++; g_recv_rc = -1; errno = g_recv_errno = EAGAIN; return -1; }
    if (mode == 2) { g_recv_rc = -1; errno = g_recv_errno = nd_hard_errno(); return -1; }
    g_recv_rc = (int)nd_range(0, capacity < 100 ? (long long)capacity : 100);
    return g_recv_rc;
}

int xcm_tp_socket_finish(struct xcm_socket *s)
{
    CHECK(s == &sock, "C04: finish goes to the socket the application named");
    g_finish_calls++;
    int mode = (int)nd_range(0, 2);
    if (mode == 1 && g_eagain >= RMAX)
	mode = 0;
    if (g_dead) mode = 2;
    if (mode == 1) { g_eagain++; g_last_finish_rc = -1; errno = g_last_errno = nd_bool() ? EAGAIN : EINPROGRESS; return -1; }
    if (mode == 2) { g_last_finish_rc = -1; g_finish_failed_hard = true; errno = g_last_errno = nd_hard_errno(); return -1; }
    g_last_finish_rc = 0;
    return 0;
}

void xcm_tp_socket_update(struct xcm_socket *s)
{
    CHECK(s == &sock, "C04: update goes to the socket the application named");
    g_update_calls++;
    g_last_update_condition = s->condition;
}

int xpoll_get_fd(struct xpoll *xpoll)
{
    CHECK(xpoll == the_xpoll, "C16: the descriptor is the socket's own xpoll descriptor");
    return XFD;
}

/* the only blocking primitive xcm.c uses */
int poll(struct pollfd *fds, nfds_t nfds, int timeout)
{
    g_poll_calls++;
    CHECK(sock.is_blocking || g_may_block || timeout == 0, "C05: a non-blocking socket never waits in poll()");
    CHECK(nfds == 1 && fds[0].fd == XFD && fds[0].events == POLLIN, "C04: blocking calls wait for readability of the socket's own descriptor");
    CHECK(g_update_calls > 0 && g_last_update_condition == sock.condition, "C04: the awaited condition was pushed to the transport (update) before waiting");
    if (nd_bool()) {
	g_interrupted = true;
	errno = EINTR;
	return -1;
    }
    fds[0].revents = POLLIN;
    return 1;
}

static void setup(bool blocking)
{
    sock.type = xcm_socket_type_conn;
    sock.is_blocking = blocking;
    sock.auto_update = true;
    sock.xpoll = the_xpoll;
    sock.condition = (int)nd_range(0, 3);
    g_bytestream = nd_bool();
}



#ifdef OP_MSEND_B
int main(void)
{
    setup(true);
    g_bytestream = false;
    g_buf = appbuf; g_len = (size_t)nd_range(0, 70000);
    errno = 0;
    int rc = xcm_send(&sock, g_buf, g_len);
    int e = errno;
    CHECK(rc == 0 || rc == -1, "C01: messaging xcm_send returns 0 or -1");
    if (rc == -1 && (e == EINTR || e == EAGAIN || e == EMSGSIZE || e == EINVAL))
	CHECK(g_accepted_msgs == 0, "C03: xcm_send fails with EINTR/EAGAIN/EMSGSIZE/EINVAL only if the transport has not accepted the message (otherwise a re-send duplicates it)");
    if (rc == -1)
	CHECK(e == g_last_errno || (g_interrupted && e == EINTR), "C06: a failed xcm_send reports the transport's errno (or EINTR)");
    if (rc == 0) {
	CHECK(g_accepted_msgs == 1, "C03: success means the transport accepted the message exactly once");
	CHECK(g_finish_calls > 0 && (g_last_finish_rc == 0 || (g_interrupted && g_accepted_msgs == 1)), "C04: blocking xcm_send returns success only after the socket finished its outstanding work (or the flush wait was interrupted after acceptance)");
	WITNESS(g_eagain == RMAX && g_poll_calls >= 2, "accepted after EAGAIN rounds and waits");
    }
    WITNESS(rc == -1 && e == EINTR && g_accepted_msgs == 0, "interrupted before acceptance");
    return 0;
}
#endif

#ifdef OP_BSEND_B
int main(void)
{
    setup(true);
    g_bytestream = true;
    g_buf = appbuf; g_len = (size_t)nd_range(1, 70000);
    errno = 0;
    int rc = xcm_send(&sock, g_buf, g_len);
    int e = errno;
    CHECK(rc == -1 || (rc >= 1 && (size_t)rc <= g_len), "C02: byte-stream xcm_send returns 1..len or -1");
    if (rc >= 0)
	CHECK((size_t)rc == g_accepted_bytes, "C02: the return value is exactly the number of bytes the transport accepted");
    if (rc == -1 && !g_finish_failed_hard)
	CHECK(g_accepted_bytes == 0, "C02,C03: xcm_send reports failure (EINTR, EAGAIN, or a send error) only if no byte of this call was accepted; otherwise the accepted count must be returned");
    if (rc == -1)
	CHECK(e == g_last_errno || (g_interrupted && e == EINTR), "C06: a failed xcm_send reports the transport's errno (or EINTR)");
    WITNESS(rc > 0 && g_send_calls >= 3, "buffer accepted in >= 3 pieces");
    WITNESS(rc == -1 && e == EINTR && g_accepted_bytes == 0, "interrupted before anything was accepted");
    return 0;
}
#endif

#ifdef OP_RECV_B
int main(void)
{
    setup(true);
    g_buf = appbuf; g_len = (size_t)nd_range(0, 70000);
    errno = 0;
    int rc = xcm_receive(&sock, appbuf, g_len);
    int e = errno;
    if (g_recv_calls > 0 && !(g_interrupted && rc == -1 && e == EINTR)) {
	CHECK(rc == g_recv_rc, "C01,C02: blocking xcm_receive returns the transport's result");
	if (rc == -1)
	    CHECK(e == g_recv_errno && e != EAGAIN, "C04,C06: blocking xcm_receive never reports EAGAIN; errors are the transport's");
    } else
	CHECK(rc == -1 && e == EINTR, "C04: without a transport result only an interrupted wait ends a blocking receive");
    CHECK(g_last_update_condition == XCM_SO_RECEIVABLE || g_update_calls == 0, "C04: blocking receive awaits RECEIVABLE");
    WITNESS(rc >= 0 && g_eagain == RMAX, "received after EAGAIN rounds");
    return 0;
}
#endif

#ifdef OP_SETBLOCK
int main(void)
{
    setup(false);
    g_may_block = true;
    errno = 0;
    int rc = xcm_set_blocking(&sock, true);
    if (rc == 0) {
	CHECK(sock.is_blocking, "C11: xcm_set_blocking(true) switches the mode");
	CHECK(g_finish_calls > 0 && g_last_finish_rc == 0, "C04: switching to blocking returns only after outstanding work is finished");
    } else
	CHECK(!sock.is_blocking, "C03: a failed mode switch leaves the mode unchanged");
    WITNESS(rc == 0 && g_poll_calls > 0, "mode switch had to wait for outstanding work");
    return 0;
}
#endif

#ifdef OP_NB
int main(void)
{
    setup(false);
    g_buf = appbuf; g_len = (size_t)nd_range(0, 70000);
    int op = (int)nd_range(0, 6);
    errno = 0;
    int rc = 0;
    switch (op) {
    case 0: rc = xcm_send(&sock, g_buf, g_len); CHECK(g_send_calls == 1, "C05: non-blocking send = one transport call"); break;
    case 1: rc = xcm_receive(&sock, appbuf, g_len); CHECK(g_recv_calls == 1 && rc == g_recv_rc, "C05: non-blocking receive = one transport call, result passed through"); break;
    case 2: rc = xcm_finish(&sock); CHECK(g_finish_calls == 1 && rc == g_last_finish_rc, "C05: non-blocking finish = one transport call, result passed through"); break;
    case 3: {
	int cond = nd_int();
	rc = xcm_await(&sock, cond);
	if (cond & ~(XCM_SO_RECEIVABLE | XCM_SO_SENDABLE))
	    CHECK(rc == -1 && errno == EINVAL && g_update_calls == 0, "C04: invalid condition refused");
	else
	    CHECK(rc == 0 && sock.condition == cond && g_last_update_condition == cond, "C04: xcm_await records the condition and updates the transport");
	break;
    }
    case 4: rc = xcm_fd(&sock); CHECK(rc == XFD, "C16: xcm_fd returns the socket's one descriptor"); break;
    case 5: rc = xcm_set_blocking(&sock, false); CHECK(rc == 0 && !sock.is_blocking && g_finish_calls == 0, "C05: set_blocking(false) on a non-blocking socket is a no-op"); break;
    case 6: CHECK(!xcm_is_blocking(&sock), "C11: xcm_is_blocking reports the mode"); break;
    }
    CHECK(g_poll_calls == 0, "C05: no wait of any kind on a non-blocking socket");
    WITNESS(op == 0 && rc == -1 && errno == EAGAIN, "non-blocking send reports EAGAIN");
    return 0;
}
#endif
