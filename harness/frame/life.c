/* Messaging transports tcp / tls (xcm_tp_tcp.c / xcm_tp_tls.c, real): life cycle
 * init -> connect | server | accept (address conversion and the sub-socket's
 * operation failing at the solver's choice) -> close | cleanup, over a
 * TYPESTATE mock of the byte-stream sub-socket (xcm_tp.h contract: after a
 * failed connect/server/accept the sub-transport has cleaned up and must not be
 * closed; otherwise closed or cleaned up exactly once before it is destroyed).
 * Frame buffers are heap objects: --memory-leak-check.  Serves C08.
 *  -DTU_TLS   -DOP_LIFE_CONNECT | OP_LIFE_SERVER | OP_LIFE_ACCEPT
 */
#include "stubs.h"
#include <errno.h>
#include <string.h>
#include "xcm_tp.h"

enum ts { ts_none, ts_created, ts_inited, ts_open, ts_failed_clean, ts_closed, ts_destroyed };
struct sub { struct xcm_socket s; enum ts st; int closes, cleanups, destroys; };
static struct sub subs[2]; static int n_subs;
static struct xcm_tp_proto low_p = { "b", NULL };
static struct sub *sub_of(struct xcm_socket *s) { for (int i = 0; i < 2; i++) if (s == &subs[i].s) return &subs[i]; CHECK(0, "C08: only the socket's own sub-socket is used"); return &subs[0]; }
struct xcm_tp_proto *xcm_tp_proto_by_name(const char *n) { (void)n; return &low_p; }
static bool g_create_fails, g_init_fails;
static struct xpoll *g_expected_xpoll; static enum xcm_socket_type g_expected_type;
struct xcm_socket *xcm_tp_socket_create(const struct xcm_tp_proto *p, enum xcm_socket_type t, struct xpoll *x, bool c, bool u, bool b)
{ (void)u; CHECK(p == &low_p && n_subs < 2, "harness"); CHECK(!c, "C14: the sub-socket gets no control interface of its own");
  CHECK(!b, "C05: the byte-stream sub-socket is never a blocking socket");
  CHECK(x == g_expected_xpoll, "C16,C04: the sub-socket shares the messaging socket's xpoll: one descriptor for the whole stack");
  CHECK(t == g_expected_type, "C08: the sub-socket has the messaging socket's type (connection/server)");
  if (g_create_fails) { errno = EMFILE; return NULL; }
  struct sub *sb = &subs[n_subs++]; sb->st = ts_created; sb->s.type = t; sb->s.proto = p; return &sb->s; }
int xcm_tp_socket_init(struct xcm_socket *s, struct xcm_socket *parent) { (void)parent; struct sub *sb = sub_of(s); CHECK(sb->st == ts_created, "C08: init on a fresh sub-socket");
  if (g_init_fails) { sb->st = ts_failed_clean; errno = EMFILE; return -1; } sb->st = ts_inited; return 0; }
static int open_op(struct xcm_socket *s)
{
    struct sub *sb = sub_of(s);
    CHECK(sb->st == ts_inited, "C08: connect/server/accept on an initialised, unused sub-socket");
    if (nd_bool()) { sb->st = ts_open; return 0; }
    sb->st = ts_failed_clean; errno = nd_bool() ? EMFILE : ECONNREFUSED; return -1;
}
int xcm_tp_socket_connect(struct xcm_socket *s, const char *a) { CHECK(strcmp(a, "b:a:1") == 0, "C12: the converted address is what the sub-socket dials"); return open_op(s); }
int xcm_tp_socket_server(struct xcm_socket *s, const char *a) { CHECK(strcmp(a, "b:a:1") == 0, "C12: the converted address is what the sub-socket binds"); return open_op(s); }
int xcm_tp_socket_accept(struct xcm_socket *c, struct xcm_socket *srv) { CHECK(sub_of(srv)->st == ts_open && srv == &subs[0].s, "C08: accept on the server's own open sub-socket"); return open_op(c); }
void xcm_tp_socket_close(struct xcm_socket *s) { if (s == NULL) return; struct sub *sb = sub_of(s); CHECK(sb->st == ts_inited || sb->st == ts_open, "C08: the sub-socket is closed only while initialised/open - never after its own connect/server/accept failed, never twice"); sb->st = ts_closed; sb->closes++; }
void xcm_tp_socket_cleanup(struct xcm_socket *s) { if (s == NULL) return; struct sub *sb = sub_of(s); CHECK(sb->st == ts_inited || sb->st == ts_open, "C08: cleanup only on an initialised/open sub-socket"); sb->st = ts_closed; sb->cleanups++; }
void xcm_tp_socket_destroy(struct xcm_socket *s) { if (s == NULL) return; struct sub *sb = sub_of(s); CHECK(sb->st == ts_closed || sb->st == ts_failed_clean, "C08: the sub-socket is destroyed only after it was closed/cleaned up or after its init/connect/server/accept failed - an open one would leak its descriptor"); sb->st = ts_destroyed; sb->destroys++; }
void xcm_tp_register(const char *n, const struct xcm_tp_ops *o) { (void)n; (void)o; }
static bool g_addr_ok;
static int conv(char *b, size_t c) { if (!g_addr_ok) { errno = EINVAL; return -1; } CHECK(c > 8, "harness"); strcpy(b, "b:a:1"); return 0; }
int tcp_to_btcp(const char *a, char *b, size_t c) { (void)a; return conv(b, c); }
int tls_to_btls(const char *a, char *b, size_t c) { (void)a; return conv(b, c); }
void *ut_malloc(size_t n) { void *p = malloc(n); ASSUME(p != NULL); return p; }
void *ut_realloc(void *o, size_t n) { (void)n; free(o); void *p = malloc(16); ASSUME(p != NULL); return p; }
void ut_free(void *p) { free(p); }

#ifdef TU_TLS
#include "xcm_tp_tls.c"
#define FSOCK struct tls_socket
#define F(name) tls_##name
#else
#include "xcm_tp_tcp.c"
#define FSOCK struct tcp_socket
#define F(name) tcp_##name
#endif

static struct { struct xcm_socket s; FSOCK priv; } sock, srv;
static struct xcm_tp_proto proto = { "m", &F(ops) };
static void released(struct sub *sb, bool owner)
{
    CHECK(sb->st == ts_destroyed && sb->destroys == 1, "C08: the byte-stream sub-socket is destroyed exactly once when the messaging socket is gone");
    CHECK(sb->closes == (owner ? sb->closes : 0) && sb->closes + sb->cleanups <= 1, "C08: ... closed or cleaned up at most once; cleanup never closes");
}
static void use_buffers(void)
{
    /* a connection that has sent and received has allocated frame buffers */
    if (nd_bool()) { mbuf_set(&sock.priv.conn.send_mbuf, "ab", 2); }
    if (nd_bool()) { mbuf_wire_ensure_capacity(&sock.priv.conn.receive_mbuf, 8); }
}

int main(void)
{
    g_addr_ok = nd_bool();
#ifdef OP_LIFE_ACCEPT
    srv.s.proto = &proto; srv.s.type = xcm_socket_type_server;
    { static int sxp; srv.s.xpoll = (struct xpoll *)&sxp; g_expected_xpoll = srv.s.xpoll; g_expected_type = xcm_socket_type_server; }
    ASSUME(F(init)(&srv.s, NULL) == 0); subs[0].st = ts_open;
    struct sub *mine = &subs[1];
    struct xcm_socket *parent = &srv.s;
    sock.s.type = xcm_socket_type_conn;
#else
    struct sub *mine = &subs[0];
    struct xcm_socket *parent = NULL;
#ifdef OP_LIFE_SERVER
    sock.s.type = xcm_socket_type_server;
#else
    sock.s.type = xcm_socket_type_conn;
#endif
#endif
    sock.s.proto = &proto;
    static int xp_obj[2];       /* two distinct xpoll identities: the server's and the new socket's own */
    sock.s.xpoll = (struct xpoll *)&xp_obj[1];
    g_expected_xpoll = sock.s.xpoll; g_expected_type = sock.s.type;
    g_create_fails = nd_bool(); g_init_fails = nd_bool();
    int before = n_subs;
    int rc = F(init)(&sock.s, parent);
    if (rc < 0) {
	CHECK(g_create_fails || g_init_fails, "C08: init fails only if the sub-socket cannot be created");
	if (n_subs > before) CHECK(mine->st == ts_destroyed && mine->closes == 0, "C08: a failed init has released the partly constructed sub-socket");
	WITNESS(n_subs > before, "sub-socket init failed after create");
	return 0;
    }
    errno = 0;
#ifdef OP_LIFE_ACCEPT
    rc = F(accept)(&sock.s, &srv.s);
#elif defined(OP_LIFE_SERVER)
    rc = F(server)(&sock.s, "m:a:1");
#else
    rc = F(connect)(&sock.s, "m:a:1");
#endif
    if (rc < 0) {
	released(mine, true);
	CHECK(errno != 0, "C08: the failure is reported with its reason");
#ifndef OP_LIFE_ACCEPT
	WITNESS(mine->closes == 1, "address refused: the initialised sub-socket is closed");
#endif
	WITNESS(mine->closes == 0, "the sub-socket's own operation failed: not closed again");
    } else {
	CHECK(mine->st == ts_open, "C08: success means the sub-socket is open");
	if (sock.s.type == xcm_socket_type_conn) use_buffers();
	bool owner = nd_bool();
	if (owner) F(close)(&sock.s); else F(cleanup)(&sock.s);
	released(mine, owner);
	CHECK(mine->closes == (owner ? 1 : 0) && mine->cleanups == (owner ? 0 : 1), "C08: close closes the sub-socket, cleanup (forked child) only cleans it up");
	WITNESS(!owner, "cleaned up in a forked child");
    }
#ifdef OP_LIFE_ACCEPT
    CHECK(subs[0].st == ts_open, "C08: the server's sub-socket is left alone");
#endif
    return 0;
}
