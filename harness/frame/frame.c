/* Framing layer (xcm_tp_tcp.c / xcm_tp_tls.c): one inductive step of
 * send / receive / finish / update from an arbitrary state satisfying the
 * representation invariant INV_frame, over the BYTESTREAM contract mock of the
 * lower (btcp/btls) socket.  Serves C01 C03 C04 C06 C07 C16 C17.
 *
 * -DTU_TLS            use xcm_tp_tls.c instead of xcm_tp_tcp.c
 * -DOP_SEND|OP_RECV|OP_FINISH|OP_UPDATE|OP_INIT   the entry point
 * -DLMAX=n            content tier: payload bound (default 6)
 * -DLEN_TIER          length tier: all lengths, content-abstract memcpy
 * -DKMAX=n            lower-layer send calls that may be answered with a partial write
 */
#include "stubs.h"
#ifndef LMAX
#define LMAX 6
#endif
#ifdef LEN_TIER
#define PAYMAX 65535u
#define CMPMAX 4          /* only header bytes are compared */
#define MM_ALLOC (65535 + 4)
#else
#define PAYMAX LMAX
#define CMPMAX (LMAX + 4)
#define MM_ALLOC (LMAX + 4)
#endif
#define MM_MAX (LMAX + 5)
static void mm_write_hook(const void *dst, size_t n);
#define MM_WRITE_HOOK(dst, n) mm_write_hook(dst, n)
#include "memmodel.h"
#ifndef KMAX
#define KMAX 2
#endif

#ifdef TU_TLS
#include "xcm_tp_tls.c"
#define FSOCK struct tls_socket
#define LOWER(ts) ((ts)->btls_socket)
#define F(name) tls_##name
#else
#include "xcm_tp_tcp.c"
#define FSOCK struct tcp_socket
#define LOWER(ts) ((ts)->btcp_socket)
#define F(name) tcp_##name
#endif

/* ---- the socket under test and the mock lower socket ------------------- */
static struct { struct xcm_socket s; FSOCK priv; } sock;
static struct xcm_socket lower_sock;
#define S (&sock.s)
#define TS (&sock.priv)

/* every modelled write into one of the two frame buffers must stay within the
 * buffer's *logical* capacity (the objects themselves have the fixed size
 * MM_ALLOC, see memmodel.h) */
static void mm_write_hook(const void *dst, size_t n)
{
    struct mbuf *sb = &TS->conn.send_mbuf, *rb = &TS->conn.receive_mbuf;
    if (dst != NULL && sb->wire_data != NULL && __CPROVER_POINTER_OBJECT(dst) == __CPROVER_POINTER_OBJECT(sb->wire_data))
	CHECK(__CPROVER_POINTER_OFFSET(dst) + n <= sb->wire_capacity, "C07: write into the send frame buffer stays within its capacity");
    if (dst != NULL && rb->wire_data != NULL && __CPROVER_POINTER_OBJECT(dst) == __CPROVER_POINTER_OBJECT(rb->wire_data))
	CHECK(__CPROVER_POINTER_OFFSET(dst) + n <= rb->wire_capacity, "C07: write into the receive frame buffer stays within its capacity");
}

/* ---- pre-state ------------------------------------------------------------ */
struct pre {
    bool bad; int reason;
    uint32_t s_len, s_sent;            /* pending frame wire length (0 = none), bytes already accepted */
    uint8_t s_bytes[CMPMAX];           /* its leading bytes */
    uint32_t r_len;                    /* partial frame bytes buffered */
    int64_t cnts[XCM_TP_NUM_MESSAGING_CNTS];
};
static struct pre pre;
/* the peer's byte stream from the last frame boundary: the first pre.r_len
 * bytes are already buffered, the rest is what the lower layer will deliver */
static uint8_t W[CMPMAX + 4];

/* ---- ghost state of the BYTESTREAM mock --------------------------------- */
static uint32_t g_out_len;       /* number of bytes the lower layer accepted this step */
static int g_send_calls, g_recv_calls, g_finish_calls, g_update_calls;
static int g_send_errno;         /* errno of the failing lower send, 0 if none */
static bool g_send_dead;         /* a hard error was returned: lower is dead */
static uint32_t g_in_len;        /* number of bytes the lower layer delivered this step */
static int g_recv_result;        /* last lower receive: >0 bytes, 0 EOF, -1 */
static int g_recv_errno;
static int g_finish_rc, g_finish_errno;
static int g_update_condition;   /* lower condition at the time of update() */
/* the message offered in this step (OP_SEND) */
static const uint8_t *g_msg;
static uint32_t g_msg_len;

static const int hard_errnos[] = { EPIPE, ECONNRESET, ETIMEDOUT, EHOSTUNREACH, ENETUNREACH, ECONNREFUSED, EPROTO };
static int nd_hard_errno(void)
{
    int i = (int)nd_range(0, 6);
    return hard_errnos[i];
}

static uint32_t pre_pending(void) { return pre.s_len ? pre.s_len - pre.s_sent : 0; }

/* the frame the send buffer must hold right now: the old one until all its
 * bytes were accepted below, then the frame of the message offered now */
static void check_pending_frame_content(void)
{
    struct mbuf *sb = &TS->conn.send_mbuf;
    if (g_out_len < pre_pending()) {
	CHECK(sb->wire_len == pre.s_len, "C01,C03: the previously accepted frame stays pending, whole, until the lower layer took all of it");
	for (uint32_t i = 0; i < CMPMAX; i++)
	    if (i < sb->wire_len)
		CHECK((uint8_t)sb->wire_data[i] == pre.s_bytes[i], "C01: pending frame bytes are not altered by later calls");
    } else {
	CHECK(g_msg != NULL, "C01: nothing but an accepted message is ever put on the wire");
	CHECK(sb->wire_len == 4 + g_msg_len, "C01: frame length = 4 + message length");
	uint32_t n = htonl(g_msg_len);
	for (uint32_t i = 0; i < 4; i++)
	    CHECK((uint8_t)sb->wire_data[i] == ((uint8_t *)&n)[i], "C01: frame header is the message length in network byte order");
#ifndef LEN_TIER
	for (uint32_t i = 0; i < LMAX; i++)
	    if (i < g_msg_len)
		CHECK((uint8_t)sb->wire_data[4 + i] == g_msg[i], "C01: frame payload is the message, unaltered");
#endif
    }
}

/* BYTESTREAM.send: accepts 1..len leading bytes, or fails */
int xcm_tp_socket_send(struct xcm_socket *s, const void *buf, size_t len)
{
    CHECK(s == &lower_sock, "C01: send goes to this connection's lower socket");
    CHECK(!g_send_dead, "C06: no further send on the lower socket after it reported a hard error");
    struct mbuf *sb = &TS->conn.send_mbuf;
    /* position oracle: exactly the unsent tail of the one pending frame */
    CHECK(sb->wire_len > 0, "C01: lower send only while a frame is pending");
    CHECK(buf == (void *)(sb->wire_data + TS->conn.mbuf_sent), "C01,C03: lower send starts at the first unsent byte of the pending frame");
    CHECK(len == (size_t)(sb->wire_len - TS->conn.mbuf_sent) && len > 0, "C01,C03: lower send offers exactly the unsent tail");
    CHECK(sb->wire_len <= sb->wire_capacity, "C07: pending frame within the buffer capacity");
    check_pending_frame_content();
    g_send_calls++;
    int mode = (int)nd_range(0, 2);
    if (g_send_calls > KMAX && mode == 1)
	mode = 0;   /* bound: after KMAX calls no more partial writes */
    if (mode == 2) {
	int e = nd_bool() ? EAGAIN : nd_hard_errno();
	g_send_errno = e;
	if (e != EAGAIN)
	    g_send_dead = true;
	errno = e;
	return -1;
    }
    size_t acc = len;
    if (mode == 1)
	acc = (size_t)nd_range(1, (long long)len);
    g_out_len += acc;
    return (int)acc;
}

/* BYTESTREAM.receive: delivers the next 1..capacity stream bytes, EOF or error */
int xcm_tp_socket_receive(struct xcm_socket *s, void *buf, size_t capacity)
{
    CHECK(s == &lower_sock, "C01: receive goes to this connection's lower socket");
    struct mbuf *rb = &TS->conn.receive_mbuf;
    g_recv_calls++;
    CHECK(g_recv_calls <= 2, "C01: at most a header read and a payload read per receive call");
    CHECK(buf == (void *)(rb->wire_data + rb->wire_len), "C01,C07: lower receive appends at the end of the partial frame");
    CHECK(rb->wire_len + capacity <= rb->wire_capacity, "C07: lower receive stays inside the frame buffer");
    CHECK(capacity > 0, "C06,C07: lower receive is asked for at least one byte (a 0-byte read cannot be told from end of stream)");
    /* exactly the bytes missing from the current frame */
    if (rb->wire_len < 4)
	CHECK(capacity == 4 - rb->wire_len, "C01: header read asks for exactly the missing header bytes");
    else {
	uint32_t L = ntohl(*(uint32_t *)rb->wire_data);
	CHECK(capacity == 4 + L - rb->wire_len, "C01: payload read asks for exactly the missing payload bytes (never into the next frame)");
    }
    int mode = (int)nd_range(0, 2);
    if (mode == 0) {
	g_recv_result = 0;
	return 0;
    }
    if (mode == 2) {
	int e = nd_bool() ? EAGAIN : nd_hard_errno();
	g_recv_result = -1;
	g_recv_errno = e;
	errno = e;
	return -1;
    }
    size_t n = (size_t)nd_range(1, (long long)capacity);
    uint32_t off = rb->wire_len;
    CHECK(off == pre.r_len + g_in_len, "C01: stream bytes are buffered contiguously");
    /* deliver W[off .. off+n) (beyond the compared prefix the content is abstract) */
    /* buf == wire_data + off (checked above): written through wire_data[i] so that the index is a constant after unrolling */
    for (uint32_t i = 0; i < CMPMAX + 4; i++)
	if (i >= off && i < off + n && i - off < capacity && (char *)buf != NULL && buf == (void *)(rb->wire_data + off))
	    ((uint8_t *)rb->wire_data)[i] = W[i];
    g_in_len += n;
    g_recv_result = (int)n;
    return (int)n;
}

int xcm_tp_socket_finish(struct xcm_socket *s)
{
    CHECK(s == &lower_sock, "C01: finish goes to this connection's lower socket");
    g_finish_calls++;
    if (nd_bool()) {
	g_finish_rc = 0;
	return 0;
    }
    g_finish_rc = -1;
    g_finish_errno = nd_bool() ? EAGAIN : nd_hard_errno();
    errno = g_finish_errno;
    return -1;
}

void xcm_tp_socket_update(struct xcm_socket *s)
{
    CHECK(s == &lower_sock, "C04: update goes to this connection's lower socket");
    g_update_calls++;
    g_update_condition = s->condition;
}

/* the rest of the lower-layer interface is not on any path of these obligations */
struct xcm_socket *xcm_tp_socket_create(const struct xcm_tp_proto *proto, enum xcm_socket_type type, struct xpoll *xpoll, bool enable_ctl, bool auto_update, bool is_blocking)
{ (void)proto; (void)type; (void)xpoll; (void)enable_ctl; (void)auto_update; (void)is_blocking; return nd_bool() ? &lower_sock : NULL; }
void xcm_tp_socket_destroy(struct xcm_socket *s) { (void)s; }
int xcm_tp_socket_init(struct xcm_socket *s, struct xcm_socket *parent) { (void)s; (void)parent; return nd_bool() ? 0 : -1; }
struct xcm_tp_proto *xcm_tp_proto_by_name(const char *n) { (void)n; static struct xcm_tp_proto p; return &p; }
void xcm_tp_register(const char *n, const struct xcm_tp_ops *o) { (void)n; (void)o; }

/* ---- pre-state construction --------------------------------------------- */
static void build_mbuf(struct mbuf *b, uint32_t len, const uint8_t *bytes)
{
    /* any capacity that can hold what is buffered (capacity only grows; it is
       0 with a NULL pointer until first use) */
    uint32_t cap = (uint32_t)nd_range(len, (long long)PAYMAX + 4);
    b->wire_capacity = cap;
    b->wire_len = len;
    if (cap == 0)
	b->wire_data = NULL;
    else {
	b->wire_data = malloc(MM_ALLOC);
	ASSUME(b->wire_data != NULL);
	for (uint32_t i = 0; i < CMPMAX; i++)
	    if (i < len)
		b->wire_data[i] = (char)bytes[i];
    }
}

static void build_pre_state(void)
{
    /* layout assumption behind XCM_TP_GETPRIV */
    CHECK((char *)TS == (char *)S + sizeof(struct xcm_socket), "harness: private area follows struct xcm_socket");
    S->type = xcm_socket_type_conn;
    S->condition = (int)nd_range(0, 3);
    S->xpoll = NULL;
    LOWER(TS) = &lower_sock;
    lower_sock.type = xcm_socket_type_conn;
    lower_sock.condition = (int)nd_range(0, 3);

    pre.bad = nd_bool();
    pre.reason = pre.bad ? EPROTO : nd_int();
    TS->conn.bad = pre.bad;
    TS->conn.badness_reason = pre.reason;

    /* send side: empty, or exactly one complete frame of which < all bytes were accepted */
    if (nd_bool()) {
	uint32_t L = (uint32_t)nd_range(1, PAYMAX);
	pre.s_len = 4 + L;
	pre.s_sent = (uint32_t)nd_range(0, (long long)pre.s_len - 1);
	uint32_t n = htonl(L);
	for (uint32_t i = 0; i < 4; i++)
	    pre.s_bytes[i] = ((uint8_t *)&n)[i];
	for (uint32_t i = 4; i < CMPMAX; i++)
	    pre.s_bytes[i] = nd_u8();
    } else {
	pre.s_len = 0;
	pre.s_sent = 0;
    }
    build_mbuf(&TS->conn.send_mbuf, pre.s_len, pre.s_bytes);
    TS->conn.mbuf_sent = (int)pre.s_sent;

    /* receive side: < 4 header bytes, or a legal header with an incomplete payload */
    pre.r_len = (uint32_t)nd_range(0, (long long)PAYMAX + 3);
    for (uint32_t i = 0; i < CMPMAX + 4; i++)
	W[i] = nd_u8();
#ifndef LEN_TIER
    {
	/* content tier: legal announced lengths above LMAX are left to the length tier */
	uint32_t LW = ntohl(*(uint32_t *)W);
	ASSUME(LW <= LMAX || LW > MBUF_MSG_MAX);
    }
#endif
    if (pre.r_len >= 4) {
	uint32_t L = ntohl(*(uint32_t *)W);
	if (!pre.bad)
	    ASSUME(L >= 1 && L <= MBUF_MSG_MAX && pre.r_len < 4 + L);
	else
	    ASSUME(pre.r_len == 4 || (L <= MBUF_MSG_MAX && pre.r_len <= 4 + L));
    }
    build_mbuf(&TS->conn.receive_mbuf, pre.r_len, W);

    /* counters: any non-negative values consistent with the buffers */
    for (int i = 0; i < XCM_TP_NUM_MESSAGING_CNTS; i++)
	pre.cnts[i] = (int64_t)nd_range(0, (1LL << 60));
    ASSUME(pre.cnts[xcm_tp_cnt_from_app_msgs] == pre.cnts[xcm_tp_cnt_to_lower_msgs] + (pre.s_len ? 1 : 0));
    ASSUME(pre.cnts[xcm_tp_cnt_from_app_bytes] == pre.cnts[xcm_tp_cnt_to_lower_bytes] + (pre.s_len ? pre.s_len - 4 : 0));
    ASSUME(pre.cnts[xcm_tp_cnt_from_lower_msgs] == pre.cnts[xcm_tp_cnt_to_app_msgs]);
    ASSUME(pre.cnts[xcm_tp_cnt_from_lower_bytes] >= pre.cnts[xcm_tp_cnt_to_app_bytes]);
    for (int i = 0; i < XCM_TP_NUM_MESSAGING_CNTS; i++)
	TS->conn.cnts[i] = pre.cnts[i];
}

/* ---- INV_frame on the post-state ---------------------------------------- */
static void check_inv(void)
{
    struct mbuf *sb = &TS->conn.send_mbuf, *rb = &TS->conn.receive_mbuf;
    CHECK(sb->wire_len <= sb->wire_capacity && sb->wire_len <= MBUF_WIRE_MAX, "C07: INV send buffer within its capacity, at most one maximum frame");
    CHECK(rb->wire_len <= rb->wire_capacity && rb->wire_len <= MBUF_WIRE_MAX, "C07: INV receive buffer within its capacity, at most one maximum frame");
    if (sb->wire_len == 0)
	CHECK(TS->conn.mbuf_sent == 0, "C01: INV no sent-offset without a pending frame");
    else {
	uint32_t L = ntohl(*(uint32_t *)sb->wire_data);
	CHECK(sb->wire_len >= 5 && L == sb->wire_len - 4 && L <= MBUF_MSG_MAX, "C01: INV pending frame is one complete legal frame");
	CHECK(TS->conn.mbuf_sent >= 0 && (uint32_t)TS->conn.mbuf_sent < sb->wire_len, "C01: INV sent-offset inside the pending frame");
    }
    if (!TS->conn.bad && rb->wire_len >= 4) {
	uint32_t L = ntohl(*(uint32_t *)rb->wire_data);
	CHECK(L >= 1 && L <= MBUF_MSG_MAX, "C06,C07: INV a buffered header of a healthy connection announces a legal length (1..65535)");
	CHECK(rb->wire_len < 4 + L, "C01: INV a complete frame is never left in the receive buffer");
    }
    if (TS->conn.bad)
	CHECK(TS->conn.badness_reason == EPROTO, "C06,C07: INV a bad framing state carries EPROTO");
    CHECK(!pre.bad || TS->conn.bad, "C06: INV bad is sticky");
    /* counters */
    int64_t *c = TS->conn.cnts;
    for (int i = 0; i < XCM_TP_NUM_MESSAGING_CNTS; i++)
	CHECK(c[i] >= pre.cnts[i], "C17: counters never decrease");
    CHECK(c[xcm_tp_cnt_from_app_msgs] == c[xcm_tp_cnt_to_lower_msgs] + (sb->wire_len ? 1 : 0), "C17: INV from_app_msgs - to_lower_msgs = frames pending (0 or 1)");
    CHECK(c[xcm_tp_cnt_from_app_bytes] == c[xcm_tp_cnt_to_lower_bytes] + (sb->wire_len ? sb->wire_len - 4 : 0), "C17: INV from_app_bytes - to_lower_bytes = payload pending");
    CHECK(c[xcm_tp_cnt_from_lower_msgs] == c[xcm_tp_cnt_to_app_msgs], "C17: INV every message taken from the lower layer was handed to the application");
    CHECK(c[xcm_tp_cnt_from_lower_bytes] >= c[xcm_tp_cnt_to_app_bytes], "C17: INV from_lower_bytes >= to_app_bytes");
}

static void check_state_unchanged(void)
{
    struct mbuf *sb = &TS->conn.send_mbuf, *rb = &TS->conn.receive_mbuf;
    CHECK(TS->conn.bad == pre.bad && (!pre.bad || TS->conn.badness_reason == pre.reason), "C03: refused call leaves the error state unchanged");
    CHECK(sb->wire_len == pre.s_len && (uint32_t)TS->conn.mbuf_sent == pre.s_sent, "C03: refused call leaves the send buffer unchanged");
    CHECK(rb->wire_len == pre.r_len, "C03: refused call leaves the receive buffer unchanged");
    for (uint32_t i = 0; i < CMPMAX; i++)
	if (i < pre.s_len)
	    CHECK((uint8_t)sb->wire_data[i] == pre.s_bytes[i], "C03: refused call leaves the pending frame bytes unchanged");
    for (int i = 0; i < XCM_TP_NUM_MESSAGING_CNTS; i++)
	CHECK(TS->conn.cnts[i] == pre.cnts[i], "C03,C17: refused call counts nothing");
}

/* Stream conservation: (bytes accepted by the lower layer this step) followed
 * by (bytes still pending in the send buffer) equals (bytes pending before)
 * followed by (frame of the message accepted in this step, if any).  The
 * position oracle in the mock fixes *which* bytes were accepted (always the
 * unsent tail of the pending frame) and check_pending_frame_content() what
 * they are, so lengths suffice here. */
static void check_send_conservation(bool accepted, uint32_t len)
{
    struct mbuf *sb = &TS->conn.send_mbuf;
    uint32_t post_pending = sb->wire_len ? sb->wire_len - (uint32_t)TS->conn.mbuf_sent : 0;
    uint32_t vlen = pre_pending() + (accepted ? 4 + len : 0);
    CHECK(g_out_len + post_pending == vlen, "C01,C03: bytes accepted below + bytes still pending = bytes pending before + the frame accepted now (nothing lost, duplicated or invented)");
    if (accepted)
	CHECK(g_out_len >= pre_pending(), "C01: a new frame is accepted only after the old one has left completely");
    if (sb->wire_len > 0 && !g_send_dead)
	check_pending_frame_content();
    if (!accepted && !g_send_dead)
	CHECK((sb->wire_len == pre.s_len && (uint32_t)TS->conn.mbuf_sent == pre.s_sent + g_out_len) || (g_out_len == pre_pending() && sb->wire_len == 0), "C01,C03: without a newly accepted message the buffer is the old frame advanced by the accepted bytes");
}

static void check_to_lower_ledger(bool accepted, uint32_t len)
{
    /* to_lower counts a message exactly when its last byte was accepted below */
    int64_t msgs = 0, bytes = 0;
    if (pre.s_len && g_out_len >= pre_pending()) { msgs++; bytes += pre.s_len - 4; }
    if (accepted && g_out_len == pre_pending() + 4 + len) { msgs++; bytes += len; }
    CHECK(TS->conn.cnts[xcm_tp_cnt_to_lower_msgs] == pre.cnts[xcm_tp_cnt_to_lower_msgs] + msgs, "C17: to_lower_msgs counts exactly the frames whose last byte was accepted below");
    CHECK(TS->conn.cnts[xcm_tp_cnt_to_lower_bytes] == pre.cnts[xcm_tp_cnt_to_lower_bytes] + bytes, "C17: to_lower_bytes counts exactly the payload of those frames");
    CHECK(TS->conn.cnts[xcm_tp_cnt_from_app_msgs] == pre.cnts[xcm_tp_cnt_from_app_msgs] + (accepted ? 1 : 0), "C17: from_app_msgs counts exactly the accepted messages");
    CHECK(TS->conn.cnts[xcm_tp_cnt_from_app_bytes] == pre.cnts[xcm_tp_cnt_from_app_bytes] + (accepted ? len : 0), "C17: from_app_bytes counts exactly the accepted payload");
}

/* ---- obligations ---------------------------------------------------------- */
#ifdef OP_SEND
int main(void)
{
    build_pre_state();
    size_t len;
#ifdef LEN_TIER
    len = nd_size();   /* every size_t: 0, 1, 65535, 65536, 2^32.., SIZE_MAX */
    static uint8_t msgbuf[70000];
#else
    uint8_t msgbuf[LMAX + 1];
    for (int i = 0; i < LMAX + 1; i++) msgbuf[i] = nd_u8();
    len = (size_t)nd_range(0, LMAX);
    /* sizes beyond the maximum: the buffer is never to be touched
       (LMAX+1..65535 are the length tier's) */
    if (nd_bool()) len = (size_t)nd_range(65536, 1LL << 40);
#endif
    g_msg = msgbuf;
    g_msg_len = (uint32_t)len;
    errno = 0;
    int rc = F(send)(S, msgbuf, len);
    int e = errno;

    CHECK(rc == 0 || rc == -1, "C01: messaging send returns 0 or -1");
    bool accepted = false;
    if (len == 0) {
	CHECK(rc == -1 && e == EINVAL, "C03: zero-length message refused with EINVAL");
	CHECK(g_send_calls == 0, "C03: size check precedes any lower-layer call");
	check_state_unchanged();
    } else if (len > MBUF_MSG_MAX) {
	CHECK(rc == -1 && e == EMSGSIZE, "C03: oversized message refused with EMSGSIZE");
	CHECK(g_send_calls == 0, "C03: size check precedes any lower-layer call");
	check_state_unchanged();
	WITNESS(len == 65536, "message of max+1 bytes refused");
    }
    else if (pre.bad) {
	CHECK(rc == -1 && e == pre.reason, "C06,C07: send on a bad connection reports the sticky errno");
	CHECK(g_send_calls == 0, "C06: no lower-layer call on a bad connection");
	check_state_unchanged();
    } else {
	if (rc == 0) {
	    accepted = true;
	    WITNESS(g_send_calls >= 3 && TS->conn.send_mbuf.wire_len > 0, "message accepted after >=3 lower sends and left partly pending");
	    WITNESS(pre.s_len > 0 && pre.s_sent > 0 && TS->conn.send_mbuf.wire_len == 0, "old partial frame and new frame both flushed");
	} else {
	    /* -1: EAGAIN only while the OLD frame could not be flushed; hard errors may also hit after acceptance */
	    CHECK(g_send_errno != 0 && e == g_send_errno, "C06: send fails only with the errno the lower layer reported");
	    if (e == EAGAIN) {
		CHECK(pre.s_len > 0 && g_out_len < pre_pending(), "C03: EAGAIN only when the previously accepted frame is still pending");
		WITNESS(g_out_len > 0, "EAGAIN after part of the old frame was flushed");
	    } else {
		/* connection failure: the message may or may not have entered the buffer */
		accepted = (TS->conn.cnts[xcm_tp_cnt_from_app_msgs] != pre.cnts[xcm_tp_cnt_from_app_msgs]);
		WITNESS(accepted, "hard error after the new frame was buffered");
	    }
	}
	check_send_conservation(accepted, (uint32_t)len);
	check_to_lower_ledger(accepted, (uint32_t)len);
	if (!accepted && rc == -1 && e == EAGAIN)
	    CHECK(!TS->conn.bad, "C03: EAGAIN leaves the error state alone");
    }
    CHECK(TS->conn.receive_mbuf.wire_len == pre.r_len, "C01: send does not touch the receive buffer");
    CHECK(g_recv_calls == 0, "C01: send does not read from the lower layer");
    check_inv();
    return 0;
}
#endif

#ifdef OP_FINISH
int main(void)
{
    build_pre_state();
    errno = 0;
    int rc = F(finish)(S);
    int e = errno;
    CHECK(rc == 0 || rc == -1, "C04: finish returns 0 or -1");
    if (pre.bad) {
	CHECK(rc == -1 && e == pre.reason, "C06,C07: finish on a bad connection reports the sticky errno");
	CHECK(g_send_calls == 0 && g_finish_calls == 0, "C06: no lower-layer call on a bad connection");
	check_state_unchanged();
    } else {
	check_send_conservation(false, 0);
	check_to_lower_ledger(false, 0);
	if (rc == 0) {
	    CHECK(TS->conn.send_mbuf.wire_len == 0, "C03,C04: finish succeeds only when nothing is pending in the frame buffer");
	    CHECK(g_finish_calls == 1 && g_finish_rc == 0, "C04: finish succeeds only when the lower layer has finished too");
	    WITNESS(pre.s_len > 0 && g_send_calls >= 2, "finish flushed a pending frame in >=2 writes");
	} else {
	    CHECK(g_send_errno != 0 || g_finish_rc == -1, "C06: finish fails only if the lower layer refused or failed");
	    CHECK(e == g_send_errno || e == g_finish_errno, "C06: finish reports an errno the lower layer raised");
	    WITNESS(g_send_errno == EAGAIN && g_out_len > 0, "finish: partial flush then EAGAIN");
	}
    }
    CHECK(g_recv_calls == 0, "C01: finish does not read from the lower layer");
    CHECK(TS->conn.receive_mbuf.wire_len == pre.r_len, "C01: finish does not touch the receive buffer");
    check_inv();
    return 0;
}
#endif

#ifdef OP_RECV
int main(void)
{
    build_pre_state();
    size_t cap;
#ifdef LEN_TIER
    cap = nd_size();
    static uint8_t bufobj[70000];
    uint8_t *buf = bufobj;
    ASSUME(cap >= 1 && (cap <= 70000 || cap >= ((size_t)1 << 31) - 2));
#else
    /* the application buffer has exactly `capacity` bytes, for each capacity
       0..LMAX+2 a separate object so that any overrun is a bounds violation */
    cap = (size_t)nd_range(1, LMAX + 2);   /* capacity 0 is outside the documented use: "leading capacity bytes" of a message would be a 0 return */
    uint8_t b0[1], b1[1], b2[2], b3[3], b4[4], b5[5], b6[6], b7[7], b8[8], b9[9], b10[10], b11[11], b12[12];
    uint8_t *bufs[] = { b0, b1, b2, b3, b4, b5, b6, b7, b8, b9, b10, b11, b12 };
    CHECK(LMAX + 2 <= 12, "harness: capacity table");
    uint8_t *buf = bufs[cap];
#endif
    errno = 0;
    int rc = F(receive)(S, buf, cap);
    int e = errno;

    struct mbuf *rb = &TS->conn.receive_mbuf;
    if (pre.bad) {
	CHECK(rc == -1 && e == pre.reason, "C06,C07: receive on a bad connection reports the sticky errno (EPROTO from then on)");
	CHECK(g_send_calls == 0 && g_recv_calls == 0, "C06: no lower-layer call on a bad connection");
	check_state_unchanged();
	check_inv();
	return 0;
    }
    /* flush prologue */
    check_send_conservation(false, 0);
    check_to_lower_ledger(false, 0);

    /* the stream since the last frame boundary: W[0 .. wlen) */
    uint32_t wlen = pre.r_len + g_in_len;
    uint32_t L = wlen >= 4 ? ntohl(*(uint32_t *)W) : 0;
    bool complete = wlen >= 4 && wlen == 4 + L;

    if (rc > 0) {
	CHECK(complete, "C01,C06: a message is delivered only when exactly one complete frame is buffered (never a partial or merged one)");
	CHECK(L >= 1 && L <= MBUF_MSG_MAX, "C07: a delivered message has a legal length 1..65535");
	CHECK((uint32_t)rc == (L < cap ? L : (uint32_t)cap), "C01: receive returns min(message length, capacity)");
	CHECK(g_recv_result > 0, "C06: no delivery in a step where the lower layer reported EOF or an error");
	CHECK(rb->wire_len == 0, "C01: truncated or not, the frame is consumed whole: the next message is unaffected");
#ifndef LEN_TIER
	for (uint32_t i = 0; i < LMAX; i++)
	    if (i < (uint32_t)rc)
		CHECK(buf[i] == W[4 + i], "C01: delivered bytes are the frame's payload, unaltered");
#endif
	CHECK(TS->conn.cnts[xcm_tp_cnt_to_app_msgs] == pre.cnts[xcm_tp_cnt_to_app_msgs] + 1, "C17: to_app_msgs counts the delivered message");
	CHECK(TS->conn.cnts[xcm_tp_cnt_to_app_bytes] == pre.cnts[xcm_tp_cnt_to_app_bytes] + rc, "C17: to_app_bytes counts the bytes really delivered (also under truncation)");
	CHECK(TS->conn.cnts[xcm_tp_cnt_from_lower_msgs] == pre.cnts[xcm_tp_cnt_from_lower_msgs] + 1, "C17: from_lower_msgs counts the completed frame");
	CHECK(TS->conn.cnts[xcm_tp_cnt_from_lower_bytes] == pre.cnts[xcm_tp_cnt_from_lower_bytes] + L, "C17: from_lower_bytes counts the frame's payload");
	WITNESS(g_recv_calls == 2 && pre.r_len > 0 && pre.r_len < 4, "message delivered: header completed from a partial header and payload read in this call");
	WITNESS(L > cap, "truncated delivery");
    } else {
	CHECK(TS->conn.cnts[xcm_tp_cnt_to_app_msgs] == pre.cnts[xcm_tp_cnt_to_app_msgs] && TS->conn.cnts[xcm_tp_cnt_to_app_bytes] == pre.cnts[xcm_tp_cnt_to_app_bytes], "C17: nothing delivered, nothing counted to_app");
	CHECK(TS->conn.cnts[xcm_tp_cnt_from_lower_msgs] == pre.cnts[xcm_tp_cnt_from_lower_msgs], "C17: no frame completed, nothing counted from_lower");
	if (rc == 0) {
	    CHECK((g_recv_calls > 0 && g_recv_result == 0) || g_send_errno == EPIPE, "C06: receive returns 0 only when the lower layer reported end of stream (or EPIPE on flush)");
	    WITNESS(pre.r_len > 4 && g_recv_result == 0, "EOF in mid-payload: partial message not delivered");
	} else {
	    CHECK(rc == -1, "C01: receive returns >0, 0 or -1");
	    if (e == EPROTO && TS->conn.bad) {
		CHECK(wlen >= 4 && (L == 0 || L > MBUF_MSG_MAX), "C07: EPROTO exactly for a frame announcing an illegal length");
		WITNESS(L > MBUF_MSG_MAX, "oversized frame announced -> EPROTO");
		WITNESS(L == 0 && wlen == 4, "zero-length frame announced -> EPROTO");
	    } else if (e == EAGAIN) {
		CHECK(!TS->conn.bad, "C06: EAGAIN does not poison the connection");
		CHECK(g_recv_calls > 0 && ((g_recv_result == -1 && g_recv_errno == EAGAIN) || g_recv_result > 0), "C04,C01: receive reports EAGAIN only because the lower layer had no (or not enough) input - a pending outbound frame the lower layer refuses (back-pressure) never stops reception");
		CHECK(!(g_recv_calls > 0 && g_recv_result == 0), "C06: end of stream reported by the lower layer - at any offset of a frame - is returned as 0 by the discovering receive, not hidden behind EAGAIN");
		CHECK(!(g_recv_calls > 0 && g_recv_result == -1 && g_recv_errno != EAGAIN), "C06: a hard error reported by the lower layer is returned by the discovering receive, not hidden behind EAGAIN");
		CHECK(rb->wire_len == wlen, "C01: after EAGAIN the partial frame holds exactly the bytes received so far");
		CHECK(!complete, "C01,C04: EAGAIN is not reported while a complete frame is buffered");
		CHECK(!(wlen >= 4 && (L == 0 || L > MBUF_MSG_MAX)), "C06,C07: an illegal announced length is reported as EPROTO, not hidden behind EAGAIN");
		for (uint32_t i = 0; i < CMPMAX; i++)          /* the compared prefix: the whole frame in the content tier, the header in the length tier */
		    if (i < wlen && i < rb->wire_len)
			CHECK((uint8_t)rb->wire_data[i] == W[i], "C01: buffered partial frame bytes are the stream bytes in order");
		WITNESS(g_in_len > 0 && pre.r_len + g_in_len > 4, "EAGAIN after part of the payload arrived");
	    } else {
		CHECK((g_recv_result == -1 && e == g_recv_errno) || (g_send_errno != 0 && e == g_send_errno), "C06: receive fails with the errno the lower layer reported");
	    }
	}
    }
    check_inv();
    return 0;
}
#endif

#ifdef OP_UPDATE
int main(void)
{
    build_pre_state();
    F(update)(S);
    int want = S->condition | (TS->conn.send_mbuf.wire_len > 0 ? XCM_SO_SENDABLE : 0);
    CHECK(g_update_calls >= 1, "C04: update propagates to the lower socket");
    CHECK((g_update_condition & want) == want, "C04: no lost wake-up: lower condition includes everything awaited, and SENDABLE while a frame is pending");
    CHECK((g_update_condition & ~want) == 0, "C16: no spurious interest: nothing beyond the awaited condition and the pending frame");
    CHECK(lower_sock.condition == g_update_condition, "C04: the lower socket was updated after its condition was set");
    CHECK(g_send_calls == 0 && g_recv_calls == 0, "C16: update performs no I/O");
    WITNESS(S->condition == 0 && TS->conn.send_mbuf.wire_len > 0, "idle app, pending frame -> SENDABLE below");
    WITNESS(S->condition == XCM_SO_RECEIVABLE && TS->conn.send_mbuf.wire_len == 0, "quiet: only RECEIVABLE below");
    check_inv();
    return 0;
}
#endif

#ifdef OP_INIT
int main(void)
{
    S->type = xcm_socket_type_conn;
    /* the private area is zeroed by xcm_tp_socket_create (static storage here);
       garbage where init is responsible */
    TS->conn.send_mbuf.wire_len = nd_u32();
    TS->conn.receive_mbuf.wire_len = nd_u32();
    TS->conn.send_mbuf.wire_capacity = nd_u32();
    TS->conn.receive_mbuf.wire_capacity = nd_u32();
    int rc = F(init)(S, NULL);
    if (rc == 0) {
	CHECK(TS->conn.send_mbuf.wire_len == 0 && TS->conn.receive_mbuf.wire_len == 0, "C01: INV holds after init: both buffers empty");
	CHECK(TS->conn.send_mbuf.wire_capacity == 0 && TS->conn.send_mbuf.wire_data == NULL, "C01: INV holds after init: no send buffer yet");
	CHECK(TS->conn.receive_mbuf.wire_capacity == 0 && TS->conn.receive_mbuf.wire_data == NULL, "C01: INV holds after init: no receive buffer yet");
	CHECK(LOWER(TS) == &lower_sock, "C01: lower socket recorded");
	CHECK(!TS->conn.bad && TS->conn.mbuf_sent == 0, "C01: INV holds after init: healthy, nothing sent");
	for (int i = 0; i < XCM_TP_NUM_MESSAGING_CNTS; i++)
	    CHECK(TS->conn.cnts[i] == 0, "C17: counters start at zero");
	WITNESS(1, "init succeeded");
    }
    return 0;
}
#endif
