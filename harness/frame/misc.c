/* Messaging transports tcp / tls (xcm_tp_tcp.c / xcm_tp_tls.c, real): the operations
 * beside the data path - address reporting (xcm.local_addr / xcm.remote_addr),
 * xcm.local_addr configuration, max_msg, counters, attribute population - over a
 * mock of the byte-stream sub-socket and of the address rewrites (whose own
 * guarantee is addr.conv).  Serves C10 (no crash whatever the sub-socket reports),
 * C11 (the configured local address reaches the layer that binds), C12, C17.
 *  -DTU_TLS
 */
#include "stubs.h"
#include <errno.h>
#include <string.h>
#include "xcm_tp.h"

static struct xcm_socket lower_sock;
static struct xcm_tp_proto low_p = { "b", NULL };
struct xcm_tp_proto *xcm_tp_proto_by_name(const char *n) { (void)n; return &low_p; }
void xcm_tp_register(const char *n, const struct xcm_tp_ops *o) { (void)n; (void)o; }

/* sub-socket: reports an address (one of two) or none */
static int g_raddr_mode, g_laddr_mode, g_get_r_calls, g_get_l_calls, g_set_l_calls, g_populate_calls;
static const char *g_set_l_arg; static int g_set_l_rc, g_set_l_errno; static struct attr_tree *g_populate_tree;
static const char *const LOW_ADDR[3] = { NULL, "b:a:1", "b:c:2" };
const char *xcm_tp_socket_get_remote_addr(struct xcm_socket *s, bool st) { (void)st; CHECK(s == &lower_sock, "C10: the sub-socket is asked"); g_get_r_calls++; return LOW_ADDR[g_raddr_mode]; }
const char *xcm_tp_socket_get_local_addr(struct xcm_socket *s, bool st) { (void)st; CHECK(s == &lower_sock, "C10: the sub-socket is asked"); g_get_l_calls++; return LOW_ADDR[g_laddr_mode]; }
int xcm_tp_socket_set_local_addr(struct xcm_socket *s, const char *a)
{
    CHECK(s == &lower_sock, "C11: the local address is configured on this socket's own sub-socket");
    g_set_l_calls++; g_set_l_arg = a;
    CHECK(a != NULL && strcmp(a, "b:c:2") == 0, "C11,C12: the sub-socket receives the converted form of the address the application gave");
    if (g_set_l_rc < 0) errno = g_set_l_errno;
    return g_set_l_rc;
}
void xcm_tp_socket_attr_populate(struct xcm_socket *s, struct attr_tree *t) { CHECK(s == &lower_sock, "C10: the sub-socket's attributes are added"); g_populate_calls++; g_populate_tree = t; }
int xcm_tp_socket_send(struct xcm_socket *s, const void *b, size_t l) { (void)s; (void)b; (void)l; CHECK(0, "harness: no data path here"); return -1; }
int xcm_tp_socket_receive(struct xcm_socket *s, void *b, size_t c) { (void)s; (void)b; (void)c; CHECK(0, "harness: no data path here"); return -1; }
int xcm_tp_socket_finish(struct xcm_socket *s) { (void)s; CHECK(0, "harness: no data path here"); return -1; }
void xcm_tp_socket_update(struct xcm_socket *s) { (void)s; }
struct xcm_socket *xcm_tp_socket_create(const struct xcm_tp_proto *p, enum xcm_socket_type t, struct xpoll *x, bool c, bool u, bool b) { (void)p; (void)t; (void)x; (void)c; (void)u; (void)b; return &lower_sock; }
void xcm_tp_socket_destroy(struct xcm_socket *s) { (void)s; }
int xcm_tp_socket_init(struct xcm_socket *s, struct xcm_socket *parent) { (void)s; (void)parent; return 0; }
int xcm_tp_socket_connect(struct xcm_socket *s, const char *a) { (void)s; (void)a; return 0; }
int xcm_tp_socket_server(struct xcm_socket *s, const char *a) { (void)s; (void)a; return 0; }
int xcm_tp_socket_accept(struct xcm_socket *c, struct xcm_socket *srv) { (void)c; (void)srv; return 0; }
void xcm_tp_socket_close(struct xcm_socket *s) { (void)s; }
void xcm_tp_socket_cleanup(struct xcm_socket *s) { (void)s; }

/* address rewrites (contract of common_tp.c, decided by addr.conv): the source transport's address in the
 * target transport's spelling, or -1 */
static bool g_conv_ok; static int g_up_calls, g_down_calls;
static int up(const char *a, char *b, size_t c)      /* b:* -> m:* */
{
    g_up_calls++;
    CHECK(a != NULL, "C10: the address rewrite is never given a NULL address (an unconnected or failed sub-socket reports none)");
    CHECK(c >= XCM_ADDR_MAX + 1, "C12: the rewritten address has a full-size buffer");
    if (a == NULL || a[0] != 'b') { errno = EINVAL; return -1; }
    strcpy(b, a); b[0] = 'm'; return 0;
}
static int down(const char *a, char *b, size_t c)    /* m:* -> b:* */
{
    g_down_calls++;
    CHECK(c >= XCM_ADDR_MAX + 1, "C12: the rewritten address has a full-size buffer");
    if (!g_conv_ok) { errno = EINVAL; return -1; }
    CHECK(a != NULL && strcmp(a, "m:c:2") == 0, "C11: the address given by the application is the one converted");
    strcpy(b, "b:c:2"); return 0;
}
int btcp_to_tcp(const char *a, char *b, size_t c) { return up(a, b, c); }
int btls_to_tls(const char *a, char *b, size_t c) { return up(a, b, c); }
int tcp_to_btcp(const char *a, char *b, size_t c) { return down(a, b, c); }
int tls_to_btls(const char *a, char *b, size_t c) { return down(a, b, c); }
void *ut_malloc(size_t n) { void *p = malloc(n); ASSUME(p != NULL); return p; }
void *ut_realloc(void *o, size_t n) { (void)n; free(o); void *p = malloc(16); ASSUME(p != NULL); return p; }
void ut_free(void *p) { free(p); }

#ifdef TU_TLS
#include "xcm_tp_tls.c"
#define FSOCK struct tls_socket
#define LOWER(ts) ((ts)->btls_socket)
#define F(name) tls_##name
#else
#include "xcm_tp_tcp.c"
#define FSOCK struct tcp_socket
#define LOWER(ts) ((ts)->btcp_socket)
#define F(name) tcp_##name
#endif

static struct { struct xcm_socket s; FSOCK priv; } sock;
static struct xcm_tp_proto proto = { "m", &F(ops) };
static const char *const UP_ADDR[3] = { NULL, "m:a:1", "m:c:2" };

int main(void)
{
    CHECK((char *)&sock.priv == (char *)&sock.s + sizeof(struct xcm_socket), "harness: private area follows struct xcm_socket");
    sock.s.proto = &proto;
    bool server = nd_bool();
    sock.s.type = server ? xcm_socket_type_server : xcm_socket_type_conn;
    bool has_lower = nd_bool();      /* a socket whose creation failed half-way has no sub-socket yet */
    LOWER(&sock.priv) = has_lower ? &lower_sock : NULL;
    g_raddr_mode = (int)nd_range(0, 2); g_laddr_mode = (int)nd_range(0, 2);
    int op = (int)nd_range(0, 5);

    if (op == 0 && !server) {
	const char *r1 = F(get_remote_addr)(&sock.s, nd_bool());
	if (!has_lower || g_raddr_mode == 0) {
	    CHECK(r1 == NULL, "C10: no remote address while the sub-socket has none (no crash, no stale text)");
	} else {
	    CHECK(r1 != NULL && strcmp(r1, UP_ADDR[g_raddr_mode]) == 0, "C10,C12: xcm.remote_addr is the sub-socket's remote address in this transport's spelling");
	    const char *r2 = F(get_remote_addr)(&sock.s, nd_bool());
	    CHECK(r2 != NULL && strcmp(r2, UP_ADDR[g_raddr_mode]) == 0, "C10: xcm.remote_addr is stable");
	}
	WITNESS(has_lower && g_raddr_mode == 0, "sub-socket without remote address");
    } else if (op == 1) {
	const char *r1 = F(get_local_addr)(&sock.s, nd_bool());
	if (!has_lower || g_laddr_mode == 0) {
	    CHECK(r1 == NULL, "C10: no local address while the sub-socket has none");
	    if (has_lower) {
		/* once the sub-socket is bound the address appears: nothing empty was cached */
		g_laddr_mode = 1;
		const char *r2 = F(get_local_addr)(&sock.s, nd_bool());
		CHECK(r2 != NULL && strcmp(r2, UP_ADDR[1]) == 0, "C10,C11: xcm.local_addr appears once the sub-socket has one");
	    }
	} else
	    CHECK(r1 != NULL && strcmp(r1, UP_ADDR[g_laddr_mode]) == 0, "C10,C11,C12: xcm.local_addr is the sub-socket's local address in this transport's spelling");
	WITNESS(has_lower && g_laddr_mode == 2, "local address reported");
    } else if (op == 2 && has_lower) {
	g_conv_ok = nd_bool(); g_set_l_rc = nd_bool() ? 0 : -1; g_set_l_errno = nd_bool() ? EACCES : EINVAL;
	errno = 0;
	int rc = F(set_local_addr)(&sock.s, "m:c:2");
	if (!g_conv_ok) {
	    CHECK(rc == -1 && errno == EINVAL && g_set_l_calls == 0, "C10,C11: an address that does not convert is refused and nothing is configured");
	} else {
	    CHECK(g_set_l_calls == 1, "C11: xcm.local_addr is handed to the byte-stream sub-socket (which binds) exactly once");
	    CHECK(rc == g_set_l_rc && (rc == 0 || errno == g_set_l_errno), "C11: the sub-socket's verdict on xcm.local_addr is the call's verdict");
	}
	WITNESS(g_conv_ok && g_set_l_rc == 0, "local address configured");
    } else if (op == 3 && !server) {
	CHECK(F(max_msg)(&sock.s) == 65535, "C07,C10: xcm.max_msg_size is 65535 on the framed transports");
    } else if (op == 4 && !server) {
	int64_t v[XCM_TP_NUM_MESSAGING_CNTS];
	for (int i = 0; i < XCM_TP_NUM_MESSAGING_CNTS; i++) { v[i] = nd_ll(); sock.priv.conn.cnts[i] = v[i]; }
	int c = (int)nd_range(0, XCM_TP_NUM_MESSAGING_CNTS - 1);
	CHECK(F(get_cnt)(&sock.s, (enum xcm_tp_cnt)c) == v[c], "C17: each xcm.*_msgs / xcm.*_bytes attribute reports its own counter");
    } else if (op == 5 && has_lower) {
	static int tree_obj;
	F(attr_populate)(&sock.s, (struct attr_tree *)&tree_obj);
	CHECK(g_populate_calls == 1 && g_populate_tree == (struct attr_tree *)&tree_obj, "C10,C11: the sub-socket's attributes (tcp.*, dns.*, tls.*) are part of this socket's attribute tree");
    }
    return 0;
}
