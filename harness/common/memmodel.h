/* Memory models (DESIGN 1.3).  CBMC's built-in memcpy/realloc with a symbolic
 * size cost GBs; these replace them.
 *   content tier (default): byte loops bounded by MM_MAX (a constant >= every
 *     size that can occur under the harness' bounds; --unwinding-assertions
 *     proves that).
 *   length tier (-DLEN_TIER): copies of more than MM_PRECISE bytes move no
 *     content; source and destination ranges are still bounds-checked.
 */
#ifndef MEMMODEL_H
#define MEMMODEL_H
#include "verif.h"
#include <string.h>

#ifndef MM_MAX
#define MM_MAX 24
#endif
#ifndef MM_PRECISE
#define MM_PRECISE 8
#endif
/* Heap objects of symbolic size make CBMC fall back to array theory (minutes,
 * GBs).  So ut_malloc/ut_realloc of a size that is not a compile-time constant
 * hand out objects of the fixed size MM_ALLOC (the request is asserted to
 * fit), and the harness checks the *logical* size through MM_WRITE_HOOK, which
 * every modelled write calls with its destination range. */
#ifndef MM_ALLOC
#define MM_ALLOC MM_MAX
#endif
#ifndef MM_WRITE_HOOK
#define MM_WRITE_HOOK(dst, n) do { } while (0)
#endif

#ifdef VERIF_CBMC
void *memcpy(void *dst, const void *src, size_t n)
{
    MM_WRITE_HOOK(dst, n);
#ifdef LEN_TIER
    if (n > MM_PRECISE) {
	__CPROVER_assert(__CPROVER_r_ok(src, n), "memcpy source readable for n bytes");
	__CPROVER_assert(__CPROVER_w_ok(dst, n), "memcpy destination writable for n bytes");
	return dst;
    }
#endif
    for (size_t i = 0; i < n; i++)
	((char *)dst)[i] = ((const char *)src)[i];
    return dst;
}

void *memmove(void *dst, const void *src, size_t n)
{
    MM_WRITE_HOOK(dst, n);
    /* an out-of-bounds move is reported once, here; the paths behind it are cut (symbolic out-of-bounds offsets make CBMC explode) */
    __CPROVER_assert(__CPROVER_r_ok(src, n), "memmove source readable for n bytes");
    __CPROVER_assert(__CPROVER_w_ok(dst, n), "memmove destination writable for n bytes");
    __CPROVER_assume(__CPROVER_r_ok(src, n) && __CPROVER_w_ok(dst, n));
#ifdef LEN_TIER
    if (n > MM_PRECISE) {
	__CPROVER_assert(__CPROVER_r_ok(src, n), "memmove source readable for n bytes");
	__CPROVER_assert(__CPROVER_w_ok(dst, n), "memmove destination writable for n bytes");
	return dst;
    }
#endif
    char tmp[MM_MAX];
    __CPROVER_assert(n <= MM_MAX, "harness: memmove model bound");
    for (size_t i = 0; i < n; i++)
	tmp[i] = ((const char *)src)[i];
    for (size_t i = 0; i < n; i++)
	((char *)dst)[i] = tmp[i];
    return dst;
}

void *memset(void *dst, int c, size_t n)
{
    MM_WRITE_HOOK(dst, n);
#ifdef LEN_TIER
    if (n > MM_PRECISE) {
	__CPROVER_assert(__CPROVER_w_ok(dst, n), "memset destination writable for n bytes");
	return dst;
    }
#endif
    for (size_t i = 0; i < n; i++)
	((char *)dst)[i] = (char)c;
    return dst;
}
#endif

void *ut_malloc(size_t size)
{
    void *p = malloc(size);
    ASSUME(p != NULL);
    return p;
}

void *ut_calloc(size_t size)
{
    void *p = calloc(1, size);      /* constant sizes only (struct allocations) */
    ASSUME(p != NULL);
    return p;
}

void *ut_realloc(void *ptr, size_t size)
{
#ifdef VERIF_CBMC
    __CPROVER_assert(size <= MM_ALLOC, "harness: memory model: reallocation request within the modelled object size (a larger request is outside what this obligation can decide)");
    char *p = malloc(MM_ALLOC);
    ASSUME(p != NULL);
    if (ptr != NULL) {
	__CPROVER_assert(__CPROVER_OBJECT_SIZE(ptr) == MM_ALLOC, "harness: memory model: realloc of a modelled object");
#ifndef LEN_TIER
	for (size_t i = 0; i < MM_ALLOC; i++)
	    p[i] = ((const char *)ptr)[i];
#else
	for (size_t i = 0; i < MM_PRECISE; i++)
	    p[i] = ((const char *)ptr)[i];
#endif
	free(ptr);
    }
    return p;
#else
    return realloc(ptr, size);
#endif
}

void ut_free(void *ptr) { free(ptr); }
#endif
