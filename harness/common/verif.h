/* Common macros for all harnesses.  A harness is compiled by goto-cc for CBMC
 * (__CPROVER__ defined) and, for counterexample replay, natively by gcc with
 * -DNATIVE_REPLAY (nondeterministic choices then come from a file). */
#ifndef VERIF_H
#define VERIF_H

#include <stdbool.h>
#include <stddef.h>
#include <stdint.h>
#include <stdio.h>
#include <stdlib.h>

#ifdef VERIF_CBMC
#define ASSUME(c) __CPROVER_assume(c)
/* property assertion; the label starts with the property ids it serves */
#define CHECK(c, label) __CPROVER_assert((c), label)
/* reachability witness: MUST be reported as FAILURE by cbmc, otherwise the
 * harness is vacuous at this point */
#define WITNESS(c, label) __CPROVER_assert(!(c), "WITNESS: " label)
#else
#define ASSUME(c) do { if (!(c)) { printf("REPLAY-ASSUME-FAILED: %s (%s:%d)\n", #c, __FILE__, __LINE__); exit(3); } } while (0)
#define CHECK(c, label) do { if (!(c)) { printf("REPLAY-VIOLATION: %s\n", label); fflush(stdout); exit(1); } } while (0)
#define WITNESS(c, label) do { if (c) printf("REPLAY-WITNESS: %s\n", label); } while (0)
#endif

#include "nd.h"

#endif
