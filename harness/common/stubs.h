/* Stubs shared by all harnesses: logging is off (its run-time default),
 * abort() is an assertion failure (CBMC's own abort is a silent assume(false)),
 * allocation never fails (upstream policy: ut_mem_exhausted -> abort). */
#ifndef STUBS_H
#define STUBS_H
#include "verif.h"
#include <stdarg.h>
#include <string.h>
#include "log.h"

bool log_is_enabled(enum log_type type) { (void)type; return false; }
void log_console_conf(bool enabled) { (void)enabled; }
void __log_event(enum log_type type, const char *file, int line,
		 const char *function, struct xcm_socket *s,
		 const char *format, ...)
{ (void)type; (void)file; (void)line; (void)function; (void)s; (void)format; }

#ifdef VERIF_CBMC
void abort(void)
{
    __CPROVER_assert(0, "C07,C08,C10,C14: abort() reached (ut_assert/assert failed)");
    __CPROVER_assume(0);
}
#endif
#endif
