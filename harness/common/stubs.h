/* Stubs shared by all harnesses: logging is off (its run-time default),
 * abort() is an assertion failure (CBMC's own abort is a silent assume(false)),
 * allocation never fails (upstream policy: ut_mem_exhausted -> abort). */
#ifndef STUBS_H
#define STUBS_H
#include "verif.h"
#include <stdarg.h>
#include <string.h>
#include "log.h"

bool log_is_enabled(enum log_type type) { (void)type; return false; }
void log_console_conf(bool enabled) { (void)enabled; }
void __log_event(enum log_type type, const char *file, int line,
		 const char *function, struct xcm_socket *s,
		 const char *format, ...)
{ (void)type; (void)file; (void)line; (void)function; (void)s; (void)format; }

#ifdef VERIF_CBMC
/* glibc functions CBMC 6.11 has no model for (a call would return an arbitrary value and make the run inconclusive): a change
 * to the code under test may start using them */
size_t strnlen(const char *s, size_t n) { size_t i = 0; while (i < n && s[i] != 0) i++; return i; }
char *strchrnul(const char *s, int c) { while (*s && *s != (char)c) s++; return (char *)s; }
char *stpcpy(char *d, const char *s) { while ((*d = *s) != 0) { d++; s++; } return d; }
void *mempcpy(void *d, const void *s, size_t n) { for (size_t i = 0; i < n; i++) ((char *)d)[i] = ((const char *)s)[i]; return (char *)d + n; }
void *memrchr(const void *s, int c, size_t n) { while (n > 0) { n--; if (((const unsigned char *)s)[n] == (unsigned char)c) return (void *)((const unsigned char *)s + n); } return 0; }

void abort(void)
{
    __CPROVER_assert(0, "C07,C08,C10,C14: abort() reached (ut_assert/assert failed)");
    __CPROVER_assume(0);
}
#endif
#endif
