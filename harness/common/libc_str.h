/* LIBC-STR contract: C models of the libc string functions the address code
 * uses.  They are validated differentially against glibc by
 * tools/validate_libc_models.c (a translator check, run before the property
 * check).  Compiled both by goto-cc and natively (prefix m_ avoids clashes;
 * under VERIF_CBMC the libc names are mapped onto the models). */
#ifndef LIBC_STR_H
#define LIBC_STR_H
#include <stdarg.h>
#include <stddef.h>
#include <stdint.h>
#include <stdbool.h>
#include <errno.h>
#include <limits.h>
#include <string.h>
#include <sys/socket.h>
#include <netinet/in.h>

#ifndef STR_MAX
#define STR_MAX 64          /* bound on every string the models walk */
#endif

static int m_isspace(int c) { return c == ' ' || (c >= '\t' && c <= '\r'); }
static int m_isdigit(int c) { return c >= '0' && c <= '9'; }

/* glibc strtol, base 10 only */
static long m_strtol10(const char *s, char **end)
{
    const char *p = s;
    while (m_isspace((unsigned char)*p)) p++;
    bool neg = false;
    if (*p == '-') { neg = true; p++; }
    else if (*p == '+') p++;
    if (!m_isdigit((unsigned char)*p)) { if (end) *end = (char *)s; return 0; }
    unsigned long acc = 0; bool ovf = false;
    /* acc*10 + d <= lim, without a run-time division (64-bit dividers stall the SAT solver) */
    const unsigned long lim_q = (unsigned long)LONG_MAX / 10;                 /* same quotient for LONG_MAX and LONG_MAX+1 */
    const unsigned lim_r = neg ? (unsigned)(((unsigned long)LONG_MAX + 1) % 10) : (unsigned)((unsigned long)LONG_MAX % 10);
    while (m_isdigit((unsigned char)*p)) {
	unsigned d = (unsigned)(*p - '0');
	if (ovf || acc > lim_q || (acc == lim_q && d > lim_r)) ovf = true;
	else acc = (acc << 3) + (acc << 1) + d;
	p++;
    }
    if (end) *end = (char *)p;
    if (ovf) { errno = ERANGE; return neg ? LONG_MIN : LONG_MAX; }
    return neg ? (long)(0 - acc) : (long)acc;
}

/* glibc strtoul, base 10 only: a minus sign negates the (unsigned) result, overflow gives ULONG_MAX and ERANGE */
static unsigned long m_strtoul10(const char *s, char **end)
{
    const char *p = s;
    while (m_isspace((unsigned char)*p)) p++;
    bool neg = false;
    if (*p == '-') { neg = true; p++; }
    else if (*p == '+') p++;
    if (!m_isdigit((unsigned char)*p)) { if (end) *end = (char *)s; return 0; }
    unsigned long acc = 0; bool ovf = false;
    const unsigned long lim_q = ULONG_MAX / 10; const unsigned lim_r = (unsigned)(ULONG_MAX % 10);
    while (m_isdigit((unsigned char)*p)) {
	unsigned d = (unsigned)(*p - '0');
	if (ovf || acc > lim_q || (acc == lim_q && d > lim_r)) ovf = true;
	else acc = (acc << 3) + (acc << 1) + d;
	p++;
    }
    if (end) *end = (char *)p;
    if (ovf) { errno = ERANGE; return ULONG_MAX; }
    return neg ? 0 - acc : acc;
}

/* glibc inet_pton(AF_INET): exactly four decimal octets 0..255, no leading zero, 1-3 digits */
static int m_inet_pton4(const char *s, void *dst)
{
    uint8_t out[4]; int oct = 0; int digits = 0; unsigned val = 0;
    for (size_t i = 0; i <= STR_MAX; i++) {
	char c = s[i];
	if (m_isdigit((unsigned char)c)) {
	    if (digits > 0 && val == 0) return 0;          /* leading zero */
	    val = val * 10 + (unsigned)(c - '0');
	    if (val > 255) return 0;
	    digits++;
	    if (digits > 3) return 0;
	} else if (c == '.') {
	    if (digits == 0 || oct == 3) return 0;
	    out[oct++] = (uint8_t)val; val = 0; digits = 0;
	} else if (c == '\0') {
	    if (digits == 0 || oct != 3) return 0;
	    out[3] = (uint8_t)val;
	    memcpy(dst, out, 4);
	    return 1;
	} else
	    return 0;
    }
    return 0;
}

static char *m_put_u(char *p, unsigned v)
{
    char tmp[10]; int n = 0;
    do { tmp[n++] = (char)('0' + v % 10); v /= 10; } while (v && n < 10);
    while (n) *p++ = tmp[--n];
    return p;
}

static const char *m_inet_ntop4(const void *src, char *dst, socklen_t size)
{
    const uint8_t *b = src; char tmp[16]; char *p = tmp;
    for (int i = 0; i < 4; i++) { p = m_put_u(p, b[i]); if (i < 3) *p++ = '.'; }
    *p = 0;
    size_t n = (size_t)(p - tmp);
    if (n + 1 > size) { errno = ENOSPC; return NULL; }
    memcpy(dst, tmp, n + 1);
    return dst;
}

/* The DNS-name regular expression of xcm_dns.c,
 *   ^[a-z0-9\-]+(\.[a-z0-9\-]+\.?)*$   (REG_ICASE|REG_EXTENDED)
 * as a hand-written automaton. */
#define M_DNS_RE "^[a-z0-9\\-]+(\\.[a-z0-9\\-]+\\.?)*$"
static bool m_dns_lchar(char c) { return (c >= 'a' && c <= 'z') || (c >= 'A' && c <= 'Z') || (c >= '0' && c <= '9') || c == '-'; }
static bool m_dns_re_match(const char *s)
{
    int st = 0;   /* 0 start, 1 first label, 2 after group dot (label char required), 3 group label, 5 after a dot that may end a group or start one */
    for (size_t i = 0; ; i++) {
	char c = s[i];
	if (c == '\0')
	    return st == 1 || st == 3 || st == 5;
	bool l = m_dns_lchar(c);
	switch (st) {
	case 0: if (l) st = 1; else return false; break;
	case 1: if (l) st = 1; else if (c == '.') st = 2; else return false; break;
	case 2: if (l) st = 3; else return false; break;
	case 3: if (l) st = 3; else if (c == '.') st = 5; else return false; break;
	case 5: if (l) st = 3; else if (c == '.') st = 2; else return false; break;
	}
	if (i >= 600) return false;
    }
}

/* minimal vsnprintf: %s %c %d %u %ld %lu %zd %zu %% */
static int m_vsnprintf(char *buf, size_t cap, const char *fmt, va_list ap)
{
    size_t n = 0;
#define M_EMIT(ch) do { if (n + 1 < cap) buf[n] = (ch); n++; } while (0)
    for (size_t i = 0; fmt[i] != '\0'; i++) {
	if (fmt[i] != '%') { M_EMIT(fmt[i]); continue; }
	i++;
	bool lng = false;
	if (fmt[i] == 'l' || fmt[i] == 'z') { lng = true; i++; }
	switch (fmt[i]) {
	case 's': { const char *s = va_arg(ap, const char *); for (size_t j = 0; s[j] != '\0'; j++) M_EMIT(s[j]); break; }
	case 'c': { int c = va_arg(ap, int); M_EMIT((char)c); break; }
	case '%': M_EMIT('%'); break;
	case 'd': case 'u': {
	    long long v = 0; unsigned long long u;
	    if (fmt[i] == 'd') { v = lng ? va_arg(ap, long) : va_arg(ap, int); u = v < 0 ? 0ULL - (unsigned long long)v : (unsigned long long)v; }
	    else u = lng ? (unsigned long long)va_arg(ap, unsigned long) : (unsigned long long)va_arg(ap, unsigned);
	    if (v < 0) M_EMIT('-');
	    if (u < 100000) {
		/* division-free digit extraction (64-bit dividers stall the SAT solver) */
		static const unsigned pw[5] = { 10000, 1000, 100, 10, 1 };
		unsigned r = (unsigned)u; bool started = false;
		for (int q = 0; q < 5; q++) {
		    unsigned dgt = 0;
		    for (int t = 0; t < 9; t++) if (r >= pw[q]) { r -= pw[q]; dgt++; }
		    if (dgt != 0 || started || q == 4) { M_EMIT((char)('0' + dgt)); started = true; }
		}
		break;
	    }
	    {
		/* all 64-bit values, still division-free: subtract powers of ten (20 x 9 conditional subtractions) */
		static const unsigned long long pw64[20] = { 10000000000000000000ULL, 1000000000000000000ULL, 100000000000000000ULL, 10000000000000000ULL,
		    1000000000000000ULL, 100000000000000ULL, 10000000000000ULL, 1000000000000ULL, 100000000000ULL, 10000000000ULL, 1000000000ULL,
		    100000000ULL, 10000000ULL, 1000000ULL, 100000ULL, 10000ULL, 1000ULL, 100ULL, 10ULL, 1ULL };
		bool started64 = false;
		for (int q = 0; q < 20; q++) {
		    unsigned dgt = 0;
		    for (int t = 0; t < 9; t++) if (u >= pw64[q]) { u -= pw64[q]; dgt++; }
		    if (dgt != 0 || started64 || q == 19) { M_EMIT((char)('0' + dgt)); started64 = true; }
		}
	    }
	    break;
	}
	default: return -1;
	}
    }
    if (cap > 0) buf[n < cap ? n : cap - 1] = '\0';
#undef M_EMIT
    return (int)n;
}

static int m_snprintf(char *buf, size_t cap, const char *fmt, ...)
{
    va_list ap; va_start(ap, fmt);
    int r = m_vsnprintf(buf, cap, fmt, ap);
    va_end(ap);
    return r;
}

#endif
