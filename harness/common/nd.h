/* Nondeterministic choices.  Under CBMC every choice is a fresh symbolic
 * value; it is drawn inside a named function with a local called `v`, so the
 * driver can read the ordered list of choices off the counterexample trace.
 * Natively the same list is read back from the file named by $VERIF_REPLAY. */
#ifndef ND_H
#define ND_H
#include <stdint.h>
#include <stdbool.h>
#include <stddef.h>

#if defined(VERIF_CBMC) && defined(CBMC_REPLAY)
/* concrete re-execution of a counterexample inside CBMC: choices are constants */
#include "replay_choices.h"
static unsigned replay_i;
static long long nondet_longlong(void)
{
    if (replay_i < REPLAY_N)
	return replay_choices[replay_i++];
    return 0;
}
#elif defined(VERIF_CBMC)
long long nondet_longlong(void);
#else
#include <stdio.h>
#include <stdlib.h>
static long long nondet_longlong(void)
{
    static FILE *f;
    if (f == NULL) {
	const char *fn = getenv("VERIF_REPLAY");
	f = fn ? fopen(fn, "r") : NULL;
	if (f == NULL) { printf("REPLAY: no choice file\n"); exit(4); }
    }
    long long v;
    if (fscanf(f, "%lld", &v) != 1) { printf("REPLAY: choices exhausted\n"); exit(5); }
    return v;
}
#endif

/* all choices go through this one function; each is assigned exactly once to
 * the global nd_choice, which is what the driver reads off the trace */
long long nd_choice;
static long long nd_ll(void) { long long v = nondet_longlong(); nd_choice = v; return v; }

static inline int nd_int(void) { return (int)nd_ll(); }
static inline unsigned nd_uint(void) { return (unsigned)nd_ll(); }
static inline bool nd_bool(void) { return (nd_ll() & 1) != 0; }
static inline uint8_t nd_u8(void) { return (uint8_t)nd_ll(); }
static inline uint16_t nd_u16(void) { return (uint16_t)nd_ll(); }
static inline uint32_t nd_u32(void) { return (uint32_t)nd_ll(); }
static inline int64_t nd_i64(void) { return (int64_t)nd_ll(); }
static inline uint64_t nd_u64(void) { return (uint64_t)nd_ll(); }
static inline size_t nd_size(void) { return (size_t)nd_ll(); }
/* value in [lo, hi] */
static inline long long nd_range(long long lo, long long hi)
{
    long long v = nd_ll();
#ifdef VERIF_CBMC
    __CPROVER_assume(v >= lo && v <= hi);
#else
    if (v < lo || v > hi) { printf("REPLAY-ASSUME-FAILED: range\n"); exit(3); }
#endif
    return v;
}
#endif
