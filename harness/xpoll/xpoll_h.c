/* libxcm/core/xpoll.c (real): one operation from an arbitrary valid xpoll
 * (registration tables of capacity <= 6, any registrations / bells), over the
 * EPOLL ghost set and an ACTIVE-FD mock.  INV: the kernel's interest set mirrors
 * the registration table; the always-readable eventfd is watched for EPOLLIN
 * exactly while a bell rings.  Serves C04 C16 C08.
 *  -DOP_FD_ADD | OP_FD_MOD | OP_FD_DEL | OP_BELL_ADD | OP_BELL_MOD | OP_BELL_DEL | OP_LIFE
 *  -DKF_EVENTFD_EXHAUSTION   known finding assumed away: eventfd() does not fail
 */
#include "stubs.h"
#include <errno.h>
#include <sys/epoll.h>
#define CAPMAX 6
#define MM_MAX (CAPMAX * 8 + 8)
#define MM_ALLOC ((CAPMAX + 1) * 2 * 8)
#include "memmodel.h"

#define EPFD 30
#define AFD 20            /* the shared always-readable eventfd */
#define NFD 8             /* application fds 0..7 */
static int E[32];                       /* EPOLL ghost: fd -> events, 0 = not in the set */
static int g_epoll_create_calls, g_epoll_close_calls, g_ctl_calls; static bool g_epoll_create_fail;
static int g_afd_get, g_afd_put; static bool g_afd_fail;
int epoll_create1(int flags) { (void)flags; g_epoll_create_calls++; if (g_epoll_create_fail) { errno = EMFILE; return -1; } return EPFD; }
int epoll_ctl(int epfd, int op, int fd, struct epoll_event *ev)
{
    g_ctl_calls++;
    CHECK(epfd == EPFD, "C16: one epoll instance per socket, never another");
    CHECK(fd >= 0 && fd < 32, "harness: fd range");
    if (op == EPOLL_CTL_ADD) { if (E[fd] != 0) { errno = EEXIST; return -1; } E[fd] = (int)ev->events; CHECK(ev->events != 0, "harness"); return 0; }
    if (op == EPOLL_CTL_MOD) { if (E[fd] == 0) { errno = ENOENT; return -1; } E[fd] = (int)ev->events; return 0; }
    if (E[fd] == 0) { errno = ENOENT; return -1; }
    E[fd] = 0; return 0;
}
void ut_close(int fd) { CHECK(fd == EPFD, "C08: xpoll closes its own epoll descriptor only"); g_epoll_close_calls++; }
void ut_fatal(void) { abort(); }
int active_fd_get(void)
{
    g_afd_get++;
#ifndef KF_EVENTFD_EXHAUSTION
    if (g_afd_fail) return -1;            /* eventfd(): EMFILE/ENFILE */
#endif
    return AFD;
}
void active_fd_put(int fd) { CHECK(fd == AFD, "C08: the reference given back is the one taken"); g_afd_put++; }

#include "xpoll.c"

static struct xpoll xp;
static int pre_epfd;
static void build(void)
{
    xp.epoll_fd = EPFD; pre_epfd = EPFD;
    int cap = (int)nd_range(0, CAPMAX);
    xp.fd_regs_capacity = cap; xp.num_fd_regs = 0;
    xp.fd_regs = cap ? malloc(MM_ALLOC) : NULL; if (cap) ASSUME(xp.fd_regs != NULL);
    for (int i = 0; i < CAPMAX; i++) if (i < cap) {
	int fd = (int)nd_range(-1, NFD - 1);
	for (int j = 0; j < CAPMAX; j++) if (j < i && fd >= 0) ASSUME(xp.fd_regs[j].fd != fd);
	xp.fd_regs[i].fd = fd; xp.fd_regs[i].event = fd >= 0 ? (int)(nd_range(0, 3) * 1) : 0;   /* 0, EPOLLIN(1), 2?, EPOLLIN|.. */
	if (fd >= 0) { int ev = xp.fd_regs[i].event; ev = (ev & 1 ? EPOLLIN : 0) | (ev & 2 ? EPOLLOUT : 0); xp.fd_regs[i].event = ev; E[fd] = ev; xp.num_fd_regs++; }
    }
    int bcap = (int)nd_range(0, CAPMAX);
    xp.bell_regs_capacity = bcap; xp.num_bell_regs = 0;
    xp.bell_regs = bcap ? malloc(MM_ALLOC) : NULL; if (bcap) ASSUME(xp.bell_regs != NULL);
    bool ringing = false;
    for (int i = 0; i < CAPMAX; i++) if (i < bcap) { xp.bell_regs[i].free = nd_bool(); xp.bell_regs[i].ringing = nd_bool(); if (!xp.bell_regs[i].free) { xp.num_bell_regs++; if (xp.bell_regs[i].ringing) ringing = true; } }
    xp.active_fd = -1; xp.active_fd_reg_id = -1;
    if (xp.num_bell_regs > 0) {
	/* the eventfd is registered in one of the fd_reg slots */
	int slot = (int)nd_range(0, CAPMAX - 1);
	ASSUME(slot < cap && xp.fd_regs[slot].fd == -1);
	xp.fd_regs[slot].fd = AFD; xp.fd_regs[slot].event = ringing ? EPOLLIN : 0; E[AFD] = xp.fd_regs[slot].event; xp.num_fd_regs++;
	xp.active_fd = AFD; xp.active_fd_reg_id = slot;
    }
    g_afd_fail = nd_bool();
}
static void check_inv(void)
{
    CHECK(xp.epoll_fd == pre_epfd, "C16: xcm_fd is the same descriptor for the whole life of the socket");
    CHECK(xp.fd_regs_capacity >= 0 && xp.fd_regs_capacity <= (CAPMAX + 1) * 2 && xp.num_fd_regs <= xp.fd_regs_capacity, "harness/INV: table sizes");
    int n = 0; bool seen[32]; for (int f = 0; f < 32; f++) seen[f] = false;
    for (int i = 0; i < (CAPMAX + 1) * 2; i++) if (i < xp.fd_regs_capacity && xp.fd_regs[i].fd >= 0) {
	int fd = xp.fd_regs[i].fd; n++;
	CHECK(fd < 32 && !seen[fd], "INV: a descriptor is registered at most once");
	if (fd < 32) { seen[fd] = true; CHECK(E[fd] == xp.fd_regs[i].event, "C04,C16: INV the kernel's interest in a descriptor is exactly what its registration says"); }
    }
    CHECK(n == xp.num_fd_regs, "INV: registration count");
    for (int f = 0; f < 32; f++) if (!seen[f]) CHECK(E[f] == 0, "C16: INV nothing is watched that is not registered (no stale interest, no spurious wake-ups)");
    int nb = 0; bool ringing = false;
    for (int i = 0; i < (CAPMAX + 1) * 2; i++) if (i < xp.bell_regs_capacity && !xp.bell_regs[i].free) { nb++; if (xp.bell_regs[i].ringing) ringing = true; }
    CHECK(nb == xp.num_bell_regs, "INV: bell count");
    CHECK((xp.active_fd >= 0) == (nb > 0), "C08: INV the shared eventfd is referenced exactly while the socket has bells");
    if (xp.active_fd >= 0) {
	CHECK(xp.active_fd_reg_id >= 0 && xp.fd_regs[xp.active_fd_reg_id].fd == xp.active_fd, "INV: the eventfd has its registration");
	CHECK(E[xp.active_fd] == (ringing ? EPOLLIN : 0), "C04,C16: INV the always-readable eventfd is watched exactly while a bell rings: a ringing bell makes xcm_fd readable at once, silent bells leave it quiet");
    }
}

int main(void)
{
    build();
#ifdef OP_FD_ADD
    int fd = (int)nd_range(0, NFD - 1), ev = (int)nd_range(0, 3); ev = (ev & 1 ? EPOLLIN : 0) | (ev & 2 ? EPOLLOUT : 0);
    ASSUME(!has_fd(&xp, fd));           /* precondition (asserted of every caller's ghost table): a descriptor is registered once */
    ASSUME(xp.num_fd_regs < CAPMAX);
    int id = xpoll_fd_reg_add(&xp, fd, ev);
    CHECK(id >= 0 && id < xp.fd_regs_capacity && xp.fd_regs[id].fd == fd && E[fd] == ev, "C04: a registered descriptor is watched for the requested events at once");
    WITNESS(xp.fd_regs_capacity > CAPMAX, "table grew");
#endif
#ifdef OP_FD_MOD
    int id = (int)nd_range(0, CAPMAX - 1), ev = (int)nd_range(0, 3); ev = (ev & 1 ? EPOLLIN : 0) | (ev & 2 ? EPOLLOUT : 0);
    ASSUME(id < xp.fd_regs_capacity && xp.fd_regs[id].fd >= 0 && id != xp.active_fd_reg_id);
    int fd = xp.fd_regs[id].fd;
    xpoll_fd_reg_mod(&xp, id, ev);
    CHECK(E[fd] == ev, "C04,C16: after a modification the kernel's interest is exactly the new mask (0 = not watched at all)");
    WITNESS(ev == 0, "mask cleared: descriptor leaves the epoll set");
#endif
#ifdef OP_FD_DEL
    int id = (int)nd_range(0, CAPMAX - 1);
    ASSUME(id < xp.fd_regs_capacity && xp.fd_regs[id].fd >= 0 && id != xp.active_fd_reg_id);
    int fd = xp.fd_regs[id].fd;
    xpoll_fd_reg_del(&xp, id);
    CHECK(E[fd] == 0 && !has_fd(&xp, fd), "C08,C16: a deleted registration leaves no interest behind");
#endif
#ifdef OP_BELL_ADD
    bool r = nd_bool();
    ASSUME(xp.num_bell_regs < CAPMAX && xp.num_fd_regs < CAPMAX);
    int id = xpoll_bell_reg_add(&xp, r);
    CHECK(id >= 0 && id < xp.bell_regs_capacity && !xp.bell_regs[id].free && xp.bell_regs[id].ringing == r, "C04: the new bell exists in the state asked for");
    WITNESS(g_afd_get == 1, "first bell: the shared eventfd was acquired");
#endif
#ifdef OP_BELL_MOD
    int id = (int)nd_range(0, CAPMAX - 1); bool r = nd_bool();
    ASSUME(id < xp.bell_regs_capacity && !xp.bell_regs[id].free);
    xpoll_bell_reg_mod(&xp, id, r);
    CHECK(xp.bell_regs[id].ringing == r, "C04: bell state set");
    WITNESS(r && E[AFD] == EPOLLIN, "ringing: xcm_fd readable");
#endif
#ifdef OP_BELL_DEL
    int id = (int)nd_range(0, CAPMAX - 1);
    ASSUME(id < xp.bell_regs_capacity && !xp.bell_regs[id].free);
    xpoll_bell_reg_del(&xp, id);
    CHECK(xp.bell_regs[id].free, "C08: bell released");
    WITNESS(xp.num_bell_regs == 0 && g_afd_put == 1, "last bell deleted: eventfd reference given back");
#endif
#ifdef OP_LIFE
    /* create / destroy */
    g_epoll_create_fail = nd_bool();
    struct xpoll *n = xpoll_create(NULL);
    if (n == NULL) CHECK(g_epoll_create_fail, "C08: epoll_create1 failure is reported as NULL");
    else {
	CHECK(n->epoll_fd == EPFD && n->num_fd_regs == 0 && n->num_bell_regs == 0 && n->active_fd == -1, "C16: a new xpoll has one epoll descriptor and nothing registered");
	/* a socket released with xcm_cleanup() skips the bell deletion: destroy is then the only place the eventfd reference is given back */
	bool holds = nd_bool();
	if (holds) { n->active_fd = AFD; }
	xpoll_destroy(n);
	CHECK(g_epoll_close_calls == 1, "C08: the epoll descriptor is closed exactly once");
	CHECK(g_afd_put == (holds ? 1 : 0), "C08: a reference to the shared eventfd still held at destruction is given back (xcm_cleanup path)");
	WITNESS(holds, "destroyed while holding the eventfd reference");
    }
    xpoll_destroy(NULL);
    return 0;
#endif
    check_inv();
    return 0;
}
