/* libxcm/tp/tls/xcm_tp_utls.c (real) over TYPESTATE mocks of its two
 * sub-sockets (ux and tls), which follow the xcm_tp.h contract: after a failed
 * connect/server/accept the sub-transport has cleaned up and must not be
 * closed; otherwise it must be closed (or cleaned up) exactly once before it is
 * destroyed; nothing may be called on a destroyed socket.  Every sub-operation
 * may fail.  Serves C08 (lifecycle ladders), C01/C03/C04/C17 (delegation to the
 * live leg).
 *  -DOP_LIFE_SERVER | OP_LIFE_CONNECT | OP_LIFE_ACCEPT | OP_DELEGATE
 */
#include "stubs.h"
#include <errno.h>
#include <string.h>
#include "xcm_tp.h"
#include "xcm_addr.h"

enum ts { ts_none, ts_created, ts_inited, ts_open, ts_failed_clean, ts_closed, ts_destroyed };
struct sub { struct xcm_socket s; enum ts st; bool is_ux; int closes, cleanups, destroys; };
static struct sub subs[4]; static int n_subs;          /* [0]=ux [1]=tls of the socket under test; [2],[3] of a second (server) socket */
static struct xcm_tp_proto ux_p = { "ux", NULL }, tls_p = { "tls", NULL };
static struct sub *sub_of(struct xcm_socket *s) { for (int i = 0; i < 4; i++) if (s == &subs[i].s) return &subs[i]; CHECK(0, "C08: only the socket's own sub-sockets are used"); return &subs[0]; }

struct xcm_tp_proto *xcm_tp_proto_by_name(const char *n) { return strcmp(n, "ux") == 0 ? &ux_p : &tls_p; }
struct xcm_socket *xcm_tp_socket_create(const struct xcm_tp_proto *p, enum xcm_socket_type t, struct xpoll *x, bool c, bool u, bool b)
{ (void)x; (void)c; (void)u; (void)b; CHECK(n_subs < 4, "harness"); struct sub *sb = &subs[n_subs++]; sb->st = ts_created; sb->is_ux = (p == &ux_p); sb->s.type = t; sb->s.proto = p; return &sb->s; }
int xcm_tp_socket_init(struct xcm_socket *s, struct xcm_socket *parent) { (void)parent; struct sub *sb = sub_of(s); CHECK(sb->st == ts_created, "C08: init on a fresh sub-socket"); sb->st = ts_inited; return 0; }   /* init cannot fail in any current transport */
static int open_op(struct xcm_socket *s, bool may_refuse)
{
    struct sub *sb = sub_of(s);
    CHECK(sb->st == ts_inited, "C08: connect/server/accept on an initialised, unused sub-socket");
    if (nd_bool()) { sb->st = ts_open; return 0; }
    sb->st = ts_failed_clean;       /* contract: cleaned up, close need not (must not) be called */
    errno = may_refuse && nd_bool() ? ECONNREFUSED : (nd_bool() ? EMFILE : EADDRINUSE);
    return -1;
}
int xcm_tp_socket_connect(struct xcm_socket *s, const char *a) { (void)a; return open_op(s, true); }
int xcm_tp_socket_server(struct xcm_socket *s, const char *a) { (void)a; return open_op(s, false); }
int xcm_tp_socket_accept(struct xcm_socket *c, struct xcm_socket *srv) { CHECK(sub_of(srv)->st == ts_open, "C08: accept on an open server sub-socket"); CHECK(sub_of(c)->is_ux == sub_of(srv)->is_ux, "C01: a connection is accepted from the server leg of the same transport"); return open_op(c, false); }
void xcm_tp_socket_close(struct xcm_socket *s) { if (s == NULL) return; struct sub *sb = sub_of(s); CHECK(sb->st == ts_inited || sb->st == ts_open, "C08: close only on a sub-socket that is initialised/open - never after a failed connect/server/accept (it already cleaned up), never twice, never after destroy"); sb->st = ts_closed; sb->closes++; }
void xcm_tp_socket_cleanup(struct xcm_socket *s) { if (s == NULL) return; struct sub *sb = sub_of(s); CHECK(sb->st == ts_inited || sb->st == ts_open, "C08: cleanup only on an initialised/open sub-socket"); sb->st = ts_closed; sb->cleanups++; }
void xcm_tp_socket_destroy(struct xcm_socket *s) { if (s == NULL) return; struct sub *sb = sub_of(s); CHECK(sb->st == ts_closed || sb->st == ts_failed_clean, "C08: a sub-socket is destroyed only after it was closed/cleaned up, or after its connect/server/accept failed - an open one would leak its descriptors, port and TLS context"); sb->st = ts_destroyed; sb->destroys++; }
static int g_ops; static struct xcm_socket *g_op_target; static int g_op_rc;
static int data_op(struct xcm_socket *s) { CHECK(sub_of(s)->st == ts_open, "C01: traffic goes to an open sub-socket"); g_ops++; g_op_target = s; g_op_rc = (int)nd_range(-1, 100); if (g_op_rc < 0) errno = EAGAIN; return g_op_rc; }
int xcm_tp_socket_send(struct xcm_socket *s, const void *b, size_t l) { (void)b; (void)l; return data_op(s); }
int xcm_tp_socket_receive(struct xcm_socket *s, void *b, size_t c) { (void)b; (void)c; return data_op(s); }
int xcm_tp_socket_finish(struct xcm_socket *s) { return data_op(s) > 0 ? 0 : g_op_rc; }
static int g_updates; static int g_update_cond[4];
void xcm_tp_socket_update(struct xcm_socket *s) { g_updates++; g_update_cond[sub_of(s) - subs] = s->condition; }
size_t xcm_tp_socket_max_msg(struct xcm_socket *s) { data_op(s); return 65535; }
int64_t xcm_tp_socket_get_cnt(struct xcm_socket *s, enum xcm_tp_cnt c) { (void)c; return data_op(s); }
const char *xcm_tp_socket_get_transport(struct xcm_socket *s) { return sub_of(s)->is_ux ? "ux" : "tls"; }
const char *xcm_tp_socket_get_remote_addr(struct xcm_socket *s, bool st) { (void)s; (void)st; return "x"; }
const char *xcm_tp_socket_get_local_addr(struct xcm_socket *s, bool st) { (void)s; (void)st; return "tls:1.2.3.4:5"; }
int xcm_tp_socket_set_local_addr(struct xcm_socket *s, const char *a) { (void)s; (void)a; return 0; }
void xcm_tp_socket_attr_populate(struct xcm_socket *s, struct attr_tree *t) { (void)s; (void)t; }
void xcm_tp_register(const char *n, const struct xcm_tp_ops *o) { (void)n; (void)o; }
const char *xcm_local_addr(struct xcm_socket *s) { (void)s; return "tls:1.2.3.4:5"; }
int xpoll_get_fd(struct xpoll *x) { (void)x; return 9; }
struct ctl *ctl_create(struct xcm_socket *s) { (void)s; return NULL; }
/* address helpers (C12's) */
static bool g_addr_ok;
int utls_to_tls(const char *u, char *t, size_t c) { (void)u; if (!g_addr_ok) { errno = EINVAL; return -1; } if (c > 8) strcpy(t, "tls:a:1"); return 0; }
int tls_to_utls(const char *t, char *u, size_t c) { (void)t; if (c > 8) strcpy(u, "utls:a:1"); return 0; }
int xcm_addr_ux_make(const char *n, char *a, size_t c) { (void)n; if (c > 4) strcpy(a, "ux:a"); return 0; }
int xcm_addr_parse_utls(const char *a, struct xcm_addr_host *h, uint16_t *p) { (void)a; if (!g_addr_ok) { errno = EINVAL; return -1; } h->type = xcm_addr_type_ip; *p = nd_bool() ? 0 : 80; return 0; }
int xcm_addr_parse_tls(const char *a, struct xcm_addr_host *h, uint16_t *p) { (void)a; h->type = xcm_addr_type_ip; *p = 5; return 0; }
int xcm_addr_make_tls(const struct xcm_addr_host *h, uint16_t p, char *a, size_t c) { (void)h; (void)p; if (c > 8) strcpy(a, "tls:a:1"); return 0; }

#include "xcm_tp_utls.c"

static struct { struct xcm_socket s; struct utls_socket priv; } sock, srv;
static struct xcm_tp_proto proto = { "utls", &utls_ops };
static void all_released(int from, int to)
{
    for (int i = from; i < to; i++) {
	CHECK(subs[i].st == ts_destroyed, "C08: every sub-socket is destroyed when the UTLS socket is gone (none leaked)");
	CHECK(subs[i].destroys == 1 && subs[i].closes + subs[i].cleanups <= 1, "C08: ... exactly once, closed at most once");
    }
}

#ifdef OP_LIFE_SERVER
int main(void)
{
    sock.s.proto = &proto; sock.s.type = xcm_socket_type_server;
    g_addr_ok = nd_bool();
    int rc = utls_init(&sock.s, NULL);
    ASSUME(rc == 0);
    rc = utls_server(&sock.s, "utls:a:1");
    if (rc < 0) {
	all_released(0, 2);
	WITNESS(subs[1].closes == 1 && subs[0].st == ts_destroyed && subs[0].closes == 0, "UX leg failed to bind after the TLS leg was bound: the TLS leg is closed");
    } else {
	CHECK(subs[0].st == ts_open && subs[1].st == ts_open, "C04: a UTLS server listens on both legs");
	bool owner = nd_bool();
	if (owner) utls_close(&sock.s); else utls_cleanup(&sock.s);
	all_released(0, 2);
	CHECK(subs[0].closes == (owner ? 1 : 0) && subs[0].cleanups == (owner ? 0 : 1) && subs[1].closes == (owner ? 1 : 0), "C08: close closes both legs, cleanup cleans both up");
	WITNESS(!owner, "UTLS server cleaned up in a forked child");
    }
    return 0;
}
#endif

#ifdef OP_LIFE_CONNECT
int main(void)
{
    sock.s.proto = &proto; sock.s.type = xcm_socket_type_conn;
    g_addr_ok = nd_bool();
    ASSUME(utls_init(&sock.s, NULL) == 0);
    int rc = utls_connect(&sock.s, "utls:a:1");
    if (rc < 0) { all_released(0, 2); WITNESS(subs[0].st == ts_destroyed && subs[1].closes == 0 && subs[1].destroys == 1, "TLS fallback failed too"); }
    else {
	struct xcm_socket *live = active_sub_conn(&sock.s);
	CHECK((sock.priv.ux_socket == NULL) != (sock.priv.tls_socket == NULL), "C01: after a successful connect exactly one leg is live");
	CHECK(sub_of(live)->st == ts_open, "C01: ... and it is the one that connected");
	CHECK(subs[live == &subs[0].s ? 1 : 0].st == ts_destroyed, "C08: the unused leg is released at once");
	utls_close(&sock.s);
	all_released(0, 2);
	WITNESS(live == &subs[1].s, "fell back to TLS after the UX leg was refused");
    }
    return 0;
}
#endif

#ifdef OP_LIFE_ACCEPT
int main(void)
{
    srv.s.proto = &proto; srv.s.type = xcm_socket_type_server; g_addr_ok = true;
    ASSUME(utls_init(&srv.s, NULL) == 0);
    subs[0].st = ts_open; subs[1].st = ts_open;                 /* a serving UTLS socket */
    sock.s.proto = &proto; sock.s.type = xcm_socket_type_conn;
    ASSUME(utls_init(&sock.s, &srv.s) == 0);
    int rc = utls_accept(&sock.s, &srv.s);
    if (rc < 0) { all_released(2, 4); }
    else {
	CHECK((sock.priv.ux_socket == NULL) != (sock.priv.tls_socket == NULL), "C01: an accepted connection has exactly one live leg");
	if (nd_bool()) utls_close(&sock.s); else utls_cleanup(&sock.s);
	all_released(2, 4);
	WITNESS(subs[3].closes + subs[3].cleanups == 1, "accepted over TLS, then released");
    }
    CHECK(subs[0].st == ts_open && subs[1].st == ts_open, "C08: accepting (or failing to) leaves the server's legs alone");
    return 0;
}
#endif

#ifdef OP_DELEGATE
/* traffic, readiness and counters go to the one live leg */
int main(void)
{
    sock.s.proto = &proto; sock.s.type = xcm_socket_type_conn; g_addr_ok = true;
    ASSUME(utls_init(&sock.s, NULL) == 0);
    ASSUME(utls_connect(&sock.s, "utls:a:1") == 0);
    struct xcm_socket *live = active_sub_conn(&sock.s);
    int li = (int)(sub_of(live) - subs);
    int op = (int)nd_range(0, 5); int rc = 0; char b[4];
    sock.s.condition = (int)nd_range(0, 3);
    switch (op) {
    case 0: rc = utls_send(&sock.s, b, 4); break;
    case 1: rc = utls_receive(&sock.s, b, 4); break;
    case 2: rc = utls_finish(&sock.s); break;
    case 3: rc = (int)utls_get_cnt(&sock.s, xcm_tp_cnt_to_app_bytes); break;
    case 4: (void)utls_max_msg(&sock.s); rc = g_op_rc; break;
    default: utls_update(&sock.s); break;
    }
    if (op <= 4) {
	CHECK(g_ops == 1 && g_op_target == live, "C01,C17: send, receive, finish, counters and max message size are those of the live leg - the other leg is never touched");
	if (op != 2 && op != 4) CHECK(rc == g_op_rc, "C01,C03: the live leg's result is passed through unchanged");
    } else {
	CHECK(g_updates == 1 && g_update_cond[li] == sock.s.condition, "C04,C16: the awaited condition is handed to the live leg, unchanged");
    }
    WITNESS(li == 1 && op == 0, "send over the TLS leg");
    return 0;
}
#endif
