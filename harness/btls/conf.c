/* libxcm/tp/tls/xcm_tp_btls.c (real): how XCM configures OpenSSL for a
 * connection - exhaustively over the policy flags {tls.auth, tls.check_crl,
 * tls.check_time, tls.verify_peer_name, tls.client} - and the consistency
 * rules of finalize_tls_conf and the inheritance from a server socket.
 * OpenSSL's setters record their arguments in a ghost configuration.  Serves C09 C11.
 *  -DOP_VERIFY | OP_HOSTNAME | OP_FINALIZE | OP_INHERIT
 */
#include "stubs.h"
#include <errno.h>
#include <string.h>
#include <openssl/ssl.h>
#include <openssl/x509.h>
#include <openssl/x509v3.h>
#include <openssl/x509_vfy.h>

/* ---- ghost OpenSSL configuration ----------------------------------------------------- */
static struct { int d; } ssl_token, param_token;
#define THE_SSL ((SSL *)&ssl_token)
static int g_verify_mode = -1; static int g_set_verify_calls;
static unsigned long g_flags; static unsigned g_hostflags; static bool g_hostflags_set;
#define NH 3
static char g_hosts[NH][4]; static int g_nhosts; static bool g_hosts_cleared; static bool g_add_host_fail;
X509_VERIFY_PARAM *SSL_get0_param(SSL *s) { CHECK(s == THE_SSL, "C09: the connection's own SSL object is configured"); return (X509_VERIFY_PARAM *)&param_token; }
unsigned long X509_VERIFY_PARAM_get_flags(const X509_VERIFY_PARAM *p) { (void)p; return g_flags; }
int X509_VERIFY_PARAM_set_flags(X509_VERIFY_PARAM *p, unsigned long f) { (void)p; g_flags |= f; return 1; }     /* OpenSSL ORs the flags in */
void X509_VERIFY_PARAM_set_hostflags(X509_VERIFY_PARAM *p, unsigned int f) { (void)p; g_hostflags = f; g_hostflags_set = true; }
int X509_VERIFY_PARAM_set1_host(X509_VERIFY_PARAM *p, const char *n, size_t l) { (void)p; (void)l; if (n == NULL) { g_nhosts = 0; g_hosts_cleared = true; } return 1; }
int X509_VERIFY_PARAM_add1_host(X509_VERIFY_PARAM *p, const char *n, size_t l)
{ (void)p; (void)l; if (g_add_host_fail) return 0; CHECK(g_nhosts < NH, "harness: host table"); g_hosts[g_nhosts][0] = n[0]; g_hosts[g_nhosts][1] = n[0] ? n[1] : 0; g_hosts[g_nhosts][2] = 0; g_nhosts++; return 1; }
void SSL_set_verify(SSL *s, int mode, SSL_verify_cb cb) { (void)cb; CHECK(s == THE_SSL, "C09: own SSL object"); g_verify_mode = mode; g_set_verify_calls++; }
void xcm_tp_register(const char *n, const struct xcm_tp_ops *o);
void ctx_store_init(void) { }
void log_tls_get_error_stack(char *buf, size_t capacity) { if (capacity > 0) buf[0] = 0; }
/* environment of finalize_tls_conf */
static int g_ns_calls, g_getenv_calls;
int ut_self_net_ns(char *name) { g_ns_calls++; if (nd_bool()) return -1; name[0] = nd_bool() ? 'n' : 0; name[1] = 0; return 0; }
char *getenv(const char *n) { (void)n; g_getenv_calls++; return nd_bool() ? "/d" : NULL; }
char *ut_asprintf(const char *fmt, ...) { char *p = malloc(8); ASSUME(p != NULL); p[0] = fmt[3] ; p[1] = 0; return p; }   /* "%s/cert..." -> 'c', "%s/key" -> 'k', "%s/tc" -> 't', "%s/crl" -> 'c' */
char *ut_strdup(const char *s) { char *p = malloc(8); ASSUME(p != NULL); size_t i; for (i = 0; i < 7 && s[i]; i++) p[i] = s[i]; p[i] = 0; return p; }
char *ut_strndup(const char *s, size_t n) { char *p = ut_strdup(s); if (n < 7) p[n] = 0; return p; }
/* fixed-size heap objects (symbolic-size objects are out of reach, DESIGN 1.3): string lists of <= 3 short names */
void *ut_malloc(size_t n) { void *p = malloc(n); ASSUME(p != NULL); return p; }
void *ut_calloc(size_t n) { CHECK(n <= 16, "harness: calloc size"); char *p = malloc(16); ASSUME(p != NULL); for (int i = 0; i < 16; i++) p[i] = 0; return p; }
/* the only user is slist.c's array of string pointers: copied element-wise (byte-wise pointer copies are expensive to bit-blast) */
void *ut_realloc(void *o, size_t n) { CHECK(n <= 4 * sizeof(char *), "harness: list size"); char **p = malloc(4 * sizeof(char *)); ASSUME(p != NULL); if (o != NULL) { for (int i = 0; i < 4; i++) p[i] = ((char **)o)[i]; free(o); } return p; }
void ut_free(void *p) { free(p); }
#ifdef VERIF_CBMC
void *memcpy(void *d, const void *s, size_t n) { for (size_t i = 0; i < 8; i++) if (i < n) ((char *)d)[i] = ((const char *)s)[i]; CHECK(n <= 8, "harness: memcpy bound"); return d; }
#endif

#include "slist.c"
#include "item.c"
#include "xcm_tp_btls.c"

static struct { struct xcm_socket s; struct btls_socket priv; } sock, parent;
#define S (&sock.s)
#define BTS (&sock.priv)
static struct xcm_tp_proto proto = { "btls", &btls_ops };
static void base(struct xcm_socket *s, struct btls_socket *b)
{
    s->proto = &proto; s->type = xcm_socket_type_conn; memset(b, 0, sizeof(*b));
    b->conn.ssl = THE_SSL; b->conn.state = conn_state_initialized;
    item_init(&b->cert); item_init(&b->key); item_init(&b->tc); item_init(&b->crl);
    b->tls_auth = nd_bool(); b->check_crl = nd_bool(); b->check_time = nd_bool(); b->verify_peer_name = nd_bool(); b->tls_client = nd_bool();
}
static struct slist *nd_names(void)
{
    if (nd_bool()) return NULL;
    struct slist *l = slist_create();
    int n = (int)nd_range(1, 2);
    for (int i = 0; i < 2; i++) if (i < n) { char nm[3] = { (char)('a' + i), nd_bool() ? 'x' : 0, 0 }; slist_append(l, nm); }
    return l;
}

#ifdef OP_VERIFY
/* all 2^4 combinations of (tls client role, auth, check_crl, check_time), any flags already set on the SSL object */
int main(void)
{
    bool client = nd_bool(), auth = nd_bool(), crl = nd_bool(), tm = nd_bool();
    unsigned long pre = (unsigned long)nd_u32() & ~(unsigned long)(X509_V_FLAG_CRL_CHECK | X509_V_FLAG_CRL_CHECK_ALL | X509_V_FLAG_NO_CHECK_TIME);
    g_flags = pre;
    set_verify(THE_SSL, client, auth, crl, tm);
    CHECK(g_set_verify_calls >= 1, "C09: the verification mode is set");
    int want = auth ? (SSL_VERIFY_PEER | (client ? 0 : SSL_VERIFY_FAIL_IF_NO_PEER_CERT)) : SSL_VERIFY_NONE;
    CHECK(g_verify_mode == want, "C09: tls.auth on <=> the peer certificate is requested and verified; in the TLS server role a client without certificate is refused");
    CHECK(((g_flags & X509_V_FLAG_CRL_CHECK) != 0) == crl && ((g_flags & X509_V_FLAG_CRL_CHECK_ALL) != 0) == crl, "C09: tls.check_crl on <=> CRL checking of the whole chain is enabled - whatever the other policy switches are");
    CHECK(((g_flags & X509_V_FLAG_NO_CHECK_TIME) != 0) == !tm, "C09: validity-period checking is disabled only if tls.check_time is off");
    CHECK((g_flags & pre) == pre, "C09: other verification flags of the context are kept");
    WITNESS(crl && !tm, "CRL checking with time checking disabled");
    return 0;
}
#endif

#ifdef OP_HOSTNAME
int main(void)
{
    base(S, BTS);
    BTS->valid_peer_names = nd_names();
    g_add_host_fail = nd_bool();
    int nn = BTS->valid_peer_names ? (int)slist_len(BTS->valid_peer_names) : 0;
    errno = 0;
    int rc = enable_hostname_validation(S);
    if (rc == 0) {
	CHECK(BTS->tls_auth && nn >= 1, "C09: name verification requires authentication and at least one expected name; otherwise EINVAL");
	CHECK(g_hostflags_set && g_hostflags == (X509_CHECK_FLAG_NO_WILDCARDS | X509_CHECK_FLAG_ALWAYS_CHECK_SUBJECT), "C09: names are matched exactly: wildcard certificates do not match (documented), the subject CN is considered");
	CHECK(g_hosts_cleared && g_nhosts == nn, "C09: the expected-name list handed to OpenSSL is exactly the configured list");
	for (int i = 0; i < NH; i++) if (i < nn) CHECK(strcmp(g_hosts[i], slist_get(BTS->valid_peer_names, (size_t)i)) == 0, "C09: ... name by name");
	WITNESS(nn == 2, "two expected names");
    } else {
	CHECK(errno == EINVAL, "C09: an invalid name-verification configuration is refused with EINVAL");
	CHECK(!BTS->tls_auth || nn == 0 || g_add_host_fail, "C09: a valid configuration is accepted");
    }
    return 0;
}
#endif

#ifdef OP_FINALIZE
/* consistency rules: every combination of the flags, of which items are set and of which were set explicitly */
int main(void)
{
    base(S, BTS);
    bool tc = nd_bool(), crl = nd_bool(), cert = nd_bool(), key = nd_bool();
    if (tc) item_set_file(&BTS->tc, "T", false); if (crl) item_set_file(&BTS->crl, "R", false);
    if (cert) item_set_file(&BTS->cert, "C", false); if (key) item_set_value(&BTS->key, "K", true);
    BTS->tc_set = tc && nd_bool(); BTS->crl_set = crl && nd_bool();
    BTS->valid_peer_names = nd_names(); BTS->valid_peer_names_set = BTS->valid_peer_names != NULL && nd_bool();
    bool names = BTS->valid_peer_names != NULL;
    bool auth = BTS->tls_auth, ccrl = BTS->check_crl, vpn = BTS->verify_peer_name;
    errno = 0;
    int rc = finalize_tls_conf(S);
    bool invalid = (!auth && tc && BTS->tc_set) || (!auth && ccrl) || (!ccrl && crl && BTS->crl_set) || (!vpn && names && BTS->valid_peer_names_set);
    CHECK((rc < 0) == invalid, "C09: exactly the documented-inconsistent policy combinations are refused at creation (CRL checking without authentication, explicit trusted CAs without authentication, explicit CRL without CRL checking, expected names without name verification)");
    if (rc < 0) CHECK(errno == EINVAL, "C09: ... with EINVAL");
    else {
	CHECK(item_is_set(&BTS->tc) == auth, "C09,C18: trusted CAs are designated exactly when authentication is on (inherited ones are dropped otherwise)");
	CHECK(item_is_set(&BTS->crl) == ccrl, "C09,C18: a CRL is designated exactly when CRL checking is on");
	CHECK(item_is_set(&BTS->cert) && item_is_set(&BTS->key), "C18: certificate and key are always designated (attribute or default file)");
	if (cert) CHECK(BTS->cert.type == item_type_file && BTS->cert.data[0] == 'C', "C18: an item designated by attribute is not replaced by the default file");
	if (key) CHECK(BTS->key.type == item_type_value && BTS->key.data[0] == 'K', "C18: by-value designation is kept");
	if (!vpn) CHECK(BTS->valid_peer_names == NULL, "C09: inherited names are dropped when name verification is off");
	if (cert && key && (!auth || tc) && (!ccrl || crl)) CHECK(g_ns_calls == 0 && g_getenv_calls == 0, "C18: with everything designated by attribute neither the environment nor the namespace is consulted");
	else CHECK(g_ns_calls >= 1 && g_getenv_calls >= 1, "C18: defaults are derived from the environment and namespace as they stand at this call (looked up once, now)");
	WITNESS(!cert && !key, "default files used");
    }
    WITNESS(rc < 0 && !auth && ccrl, "CRL checking without authentication refused");
    return 0;
}
#endif

#ifdef OP_INHERIT
/* an accepted connection takes over the server socket's policy and material */
int main(void)
{
    base(&parent.s, &parent.priv); parent.s.type = xcm_socket_type_server;
    struct btls_socket *p = &parent.priv;
    if (nd_bool()) item_set_file(&p->cert, "C", false); if (nd_bool()) item_set_value(&p->key, "K", true);
    if (nd_bool()) item_set_file(&p->tc, "T", false); if (nd_bool()) item_set_value(&p->crl, "R", false);
    p->valid_peer_names = nd_names();
    S->proto = &proto; S->type = xcm_socket_type_conn; memset(BTS, 0, sizeof(*BTS));
    item_init(&BTS->cert); item_init(&BTS->key); item_init(&BTS->tc); item_init(&BTS->crl);
    inherit_tls_conf(S, &parent.s);
    CHECK(BTS->tls_auth == p->tls_auth && BTS->check_crl == p->check_crl && BTS->check_time == p->check_time && BTS->verify_peer_name == p->verify_peer_name && BTS->tls_client == p->tls_client,
	  "C09,C11: policy attributes of the server socket govern its accepted connections (all five switches)");
    CHECK((BTS->valid_peer_names != NULL) == (p->valid_peer_names != NULL), "C09: the expected names are inherited");
    if (p->valid_peer_names) { CHECK(slist_len(BTS->valid_peer_names) == slist_len(p->valid_peer_names) && BTS->valid_peer_names != p->valid_peer_names, "C09: ... as a copy of the whole list");
	for (size_t i = 0; i < 2; i++) if (i < slist_len(p->valid_peer_names)) CHECK(strcmp(slist_get(BTS->valid_peer_names, i), slist_get(p->valid_peer_names, i)) == 0, "C09: ... name by name"); }
    const struct item *pi[4] = { &p->cert, &p->key, &p->tc, &p->crl }, *ci[4] = { &BTS->cert, &BTS->key, &BTS->tc, &BTS->crl };
    for (int i = 0; i < 4; i++) { CHECK(ci[i]->type == pi[i]->type, "C18: each credential item is inherited with its kind (by file / by value)");
	if (pi[i]->type != item_type_none) CHECK(ci[i]->data != pi[i]->data && strcmp(ci[i]->data, pi[i]->data) == 0, "C18: ... and its designation, as a copy"); }
    WITNESS(p->valid_peer_names != NULL && p->verify_peer_name, "server with name verification");
    return 0;
}
#endif
