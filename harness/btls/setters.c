/* libxcm/tp/tls/xcm_tp_btls.c (real): every attribute setter registered by
 * populate_common, from any socket kind and connection state, with any value of
 * the attribute's type (the attribute tree has checked type and length):
 *  - a refused set (EACCES after the connection has left its initial state,
 *    EINVAL for a bad value) changes nothing at all,
 *  - an accepted set is what the attribute's getter reports afterwards and
 *    leaves every other attribute alone.
 * Serves C10 C11.   -DSETTER=fn -DGETTER=fn -DKIND=0(bool)|1(str)|2(bin)
 */
#include "conf.c"
#ifndef VMAX
#define VMAX 7
#endif
bool xcm_dns_is_valid_name(const char *n) { return n[0] != 0 && n[0] != '!'; }     /* the real predicate is C12's; here: some names are invalid */
X509 *SSL_get1_peer_certificate(const SSL *s) { (void)s; return NULL; }
void X509_free(X509 *x) { (void)x; }

struct snap { bool f[5]; bool tc_set, crl_set, names_set; int type[4]; char data[4][VMAX + 1]; bool sens[4]; int nn; char names[3][VMAX + 1]; };
static void take(struct snap *k)
{
    k->f[0] = BTS->tls_auth; k->f[1] = BTS->check_crl; k->f[2] = BTS->check_time; k->f[3] = BTS->verify_peer_name; k->f[4] = BTS->tls_client;
    k->tc_set = BTS->tc_set; k->crl_set = BTS->crl_set; k->names_set = BTS->valid_peer_names_set;
    const struct item *it[4] = { &BTS->cert, &BTS->key, &BTS->tc, &BTS->crl };
    for (int i = 0; i < 4; i++) { k->type[i] = it[i]->type; memset(k->data[i], 0, VMAX + 1); if (it[i]->type != item_type_none) for (int j = 0; j < VMAX; j++) { k->data[i][j] = it[i]->data[j]; if (!it[i]->data[j]) break; } }
    k->nn = BTS->valid_peer_names ? (int)slist_len(BTS->valid_peer_names) : -1;
    for (int i = 0; i < 3; i++) { memset(k->names[i], 0, VMAX + 1); if (i < k->nn) { const char *n = slist_get(BTS->valid_peer_names, (size_t)i); for (int j = 0; j < VMAX; j++) { k->names[i][j] = n[j]; if (!n[j]) break; } } }
}
static bool same(const struct snap *a, const struct snap *b, int except_item, bool except_names, int except_flag)
{
    for (int i = 0; i < 5; i++) if (i != except_flag && a->f[i] != b->f[i]) return false;
    for (int i = 0; i < 4; i++) if (i != except_item) { if (a->type[i] != b->type[i]) return false; for (int j = 0; j <= VMAX; j++) if (a->data[i][j] != b->data[i][j]) return false; }
    if (!except_names) { if (a->nn != b->nn) return false; for (int i = 0; i < 3; i++) for (int j = 0; j <= VMAX; j++) if (a->names[i][j] != b->names[i][j]) return false; }
    return true;
}

int main(void)
{
    base(S, BTS);
    bool server = nd_bool();
    if (server) S->type = xcm_socket_type_server;
    else BTS->conn.state = (enum conn_state)nd_range(conn_state_none + 1, conn_state_bad);
    struct item *its[4] = { &BTS->cert, &BTS->key, &BTS->tc, &BTS->crl };
    for (int i = 0; i < 4; i++) { int k = (int)nd_range(0, 2); if (k == 1) item_set_file(its[i], "/old", false); else if (k == 2) item_set_value(its[i], "OLD", i == 1); }
    BTS->valid_peer_names = nd_names();
    struct snap before, after; take(&before);
    bool frozen = !server && BTS->conn.state != conn_state_initialized;

    /* the value: what attr_tree_set_value lets through for this type */
    char val[VMAX + 1]; size_t len;
#ifdef VAL
    { const char *cv = VAL; memset(val, 0, sizeof(val)); for (int i = 0; i < VMAX && cv[i]; i++) val[i] = cv[i]; }      /* one concrete value per obligation (names) */
#else
    for (int i = 0; i < VMAX; i++) { int c = (int)nd_range(0, 4); val[i] = c == 0 ? 0 : c == 1 ? 'a' : c == 2 ? ':' : c == 3 ? '!' : 'b'; } val[VMAX] = 0;
#endif
#if KIND == 0
    bool bv = nd_bool(); memcpy(val, &bv, sizeof(bv)); len = sizeof(bool);
#elif KIND == 1
    len = strlen(val) + 1;
#else
    len = (size_t)nd_range(0, VMAX);
#endif
    errno = 0;
    int rc = SETTER(S, NULL, val, len);
    int e = errno;
    take(&after);
    CHECK(BTS->valid_peer_names == NULL || slist_len(BTS->valid_peer_names) > 0, "C09: INV the expected-name list is absent or non-empty: an empty list would pass for 'names configured' and make OpenSSL check no name at all while tls.verify_peer_name reads true");
    if (rc < 0) {
	CHECK(rc == -1 && (e == EACCES || e == EINVAL), "C10: a refused set is -1 with EACCES or EINVAL");
	CHECK(same(&before, &after, -1, false, -1) && before.tc_set == after.tc_set && before.crl_set == after.crl_set && before.names_set == after.names_set,
	      "C10: a refused attribute set has no side effects - every policy switch, credential designation and expected peer name is as before");
	if (frozen) CHECK(e == EACCES, "C11: TLS attributes are creation-time only on a connection: EACCES once it has left its initial state");
#if (defined(IS_NAMES) && defined(VAL_BAD)) || KIND == 2
	WITNESS(e == EINVAL, "value refused");
#elif defined(IS_NAMES)
	WITNESS(e == EACCES, "set after the connection left its initial state");
#else
	WITNESS(e == EACCES, "set after the connection left its initial state");
#endif
    } else {
	CHECK(!frozen, "C11: a set on a connection that has left its initial state is refused (it could not take effect)");
	/* takes effect: the getter reports it */
	uint8_t out[VMAX + 2]; memset(out, 0x55, sizeof(out));
	int g = GETTER(S, NULL, out, sizeof(out));
#if KIND == 0
	CHECK(g == 1 && out[0] == (uint8_t)bv, "C11: an accepted set is what the getter reports");
#elif KIND == 1
#ifdef IS_NAMES
	if (val[0] == 0) CHECK(g == -1, "C11: an empty name list clears the expected names");
	else CHECK(g == (int)len && strcmp((char *)out, val) == 0, "C11: an accepted name list is reported back name by name");
#else
	CHECK(g == (int)len && strcmp((char *)out, val) == 0, "C11: an accepted set is what the getter reports");
#endif
#else
	CHECK(g == (int)len && memcmp(out, val, len) == 0, "C11: an accepted by-value credential is reported back byte by byte");
#endif
	CHECK(same(&before, &after, ITEM_IDX, IS_NAMES_B, FLAG_IDX), "C10: an accepted set changes only its own attribute");
#ifndef VAL_BAD
	WITNESS(server, "set on a server socket (governs later accepted connections)");
#endif
    }
    return 0;
}
