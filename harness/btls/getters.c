/* libxcm/tp/tls/xcm_tp_btls.c (real): every attribute getter registered by
 * populate_common/populate_conn (list regenerated from the ATTR_TREE_ADD_* call
 * sites on every run, plus the three per-index SAN getters), from any socket
 * kind and connection state, with every capacity the attribute tree may pass,
 * over a mock of cert.h (peer certificate absent or present; names, CN, SAN
 * entries and key identifier of any length up to the bound, or missing).
 * Serves C10 (and C08: the peer-certificate reference is released).
 *  -DGETTER=fn -DGSIZE=n [-DCTX_INDEX]
 */
#include "conf.c"
#include "cert.h"
#define BUFMAX 12
#define SMAX 7            /* longest mock string */
static struct { int d; } x509_token; static int g_cert_live; static bool g_peer_cert_present;
X509 *SSL_get1_peer_certificate(const SSL *s) { if (s == NULL || !g_peer_cert_present) return NULL; g_cert_live++; return (X509 *)&x509_token; }
void X509_free(X509 *x) { if (x != NULL) { CHECK(g_cert_live > 0, "C08: certificate reference released once"); g_cert_live--; } }
static char *nd_str(void)
{
    if (nd_bool()) return NULL;
    char *p = malloc(SMAX + 1); ASSUME(p != NULL);
    size_t n = (size_t)nd_range(0, SMAX);
    for (size_t i = 0; i < SMAX; i++) p[i] = i < n ? 'a' : 0;
    p[SMAX] = 0;
    return p;
}
char *cert_get_subject_field_cn(X509 *c) { (void)c; return nd_str(); }
struct slist *cert_get_subject_names(X509 *c) { (void)c; struct slist *l = slist_create(); int n = (int)nd_range(0, 2);
  for (int i = 0; i < 2; i++) if (i < n) { char nm[4] = { 'n', nd_bool() ? 'x' : 0, 0, 0 }; if (nm[1] && nd_bool()) nm[2] = 'y'; slist_append(l, nm); } return l; }
static size_t g_san_count;
size_t cert_count_san(X509 *c, enum cert_san_type t) { (void)c; (void)t; return g_san_count; }
char *cert_get_san(X509 *c, enum cert_san_type t, size_t i) { (void)c; (void)t; CHECK(i < g_san_count, "C10: only an existing SAN entry is fetched"); return nd_str(); }
char *cert_get_dir_cn(X509 *c, size_t i) { (void)c; CHECK(i < g_san_count, "C10: only an existing SAN entry is fetched"); return nd_str(); }
static bool g_has_ski; static size_t g_ski_len;
bool cert_has_ski(X509 *c) { (void)c; return g_has_ski; }
size_t cert_get_ski_len(X509 *c) { (void)c; return g_ski_len; }
void cert_get_ski(X509 *c, void *buf) { (void)c; for (size_t i = 0; i < BUFMAX + 4; i++) if (i < g_ski_len) ((uint8_t *)buf)[i] = 0xAA; }

int main(void)
{
    base(S, BTS);
    if (nd_bool()) S->type = xcm_socket_type_server;
    else { BTS->conn.state = (enum conn_state)nd_range(conn_state_none + 1, conn_state_bad); if (BTS->conn.state == conn_state_initialized) BTS->conn.ssl = NULL; }
    /* designations of either kind, short */
    struct item *its[4] = { &BTS->cert, &BTS->key, &BTS->tc, &BTS->crl };
    for (int i = 0; i < 4; i++) { int k = (int)nd_range(0, 2); if (k == 1) item_set_file(its[i], nd_bool() ? "/f" : "/dir/fi", false); else if (k == 2) item_set_value(its[i], nd_bool() ? "V" : "VALUEVA", i == 1); }
    BTS->valid_peer_names = nd_names();
    g_peer_cert_present = nd_bool(); g_san_count = (size_t)nd_range(0, 2); g_has_ski = nd_bool(); g_ski_len = (size_t)nd_range(0, BUFMAX + 3);
#if GSIZE > 0
    size_t cap = (size_t)nd_range(GSIZE, BUFMAX);
#else
    size_t cap = (size_t)nd_range(0, BUFMAX);
#endif
#ifdef CTX_INDEX
    void *ctx = (void *)(uintptr_t)nd_range(0, 2);     /* the tree only registers indices below the count at build time; the certificate is the same object */
    ASSUME((uintptr_t)ctx < g_san_count || !g_peer_cert_present);
#else
    void *ctx = NULL;
#endif
    uint8_t buf[BUFMAX + 4];
    memset(buf, 0x55, sizeof(buf));
    enum conn_state st0 = BTS->conn.state;
    errno = 0;
    int rc = GETTER(S, ctx, buf, cap);
    int e = errno;
    for (size_t i = 0; i < BUFMAX + 4; i++) if (i >= cap) CHECK(buf[i] == 0x55, "C10: the getter never writes more than `capacity` bytes");
    if (rc >= 0) {
	CHECK((size_t)rc <= cap, "C10: the returned length fits the capacity");
#if GSIZE > 0
	CHECK(rc == GSIZE, "C10: a fixed-size value reports its size");
#elif defined(IS_STR)
	if (rc > 0) CHECK(buf[rc - 1] == 0 && strlen((char *)buf) == (size_t)rc - 1, "C10: a string value is NUL-terminated inside the returned length");
#endif
	for (size_t i = 0; i < BUFMAX + 4; i++) if (i >= (size_t)rc) CHECK(buf[i] == 0x55, "C10: the returned length is exactly the number of bytes written");
	WITNESS(rc > 0 && (size_t)rc == cap, "value exactly fills the buffer");
    } else {
	CHECK(rc == -1 && (e == EOVERFLOW || e == ENOENT), "C10: a value that does not fit yields EOVERFLOW, a missing one ENOENT");
#if GSIZE == 0
	WITNESS(e == EOVERFLOW, "value one byte too long for the buffer");
#endif
    }
    CHECK(g_cert_live == 0, "C08: the peer certificate reference taken by the getter is released on every path");
    CHECK(S->type == xcm_socket_type_server || BTS->conn.state == st0, "C10: reading an attribute does not change the connection state");
    return 0;
}
