/* libxcm/tp/tls/xcm_tp_btls.c (real): life cycle of a BTLS socket - btls_init,
 * then btls_connect | btls_server | btls_accept with every resource-creating
 * step failing at the solver's choice, the first TLS handshake attempt with any
 * outcome, then btls_close | btls_cleanup - over ghost resources: the BTCP
 * sub-socket (typestate, xcm_tp.h contract), the SSL object and its BIO, the
 * reference to the cached SSL_CTX, the bell registration.  Also: the OpenSSL
 * configuration is complete *before* the handshake starts.  Serves C08 C02 C09.
 *  -DOP_LIFE_CONNECT | OP_LIFE_SERVER | OP_LIFE_ACCEPT
 */
#include "conf.c"            /* ghost OpenSSL verification configuration + real slist.c, item.c, xcm_tp_btls.c */
#include <openssl/err.h>

/* ---- BTCP sub-socket: typestate ---- */
enum ts { ts_none, ts_created, ts_inited, ts_open, ts_failed_clean, ts_closed, ts_destroyed };
struct sub { struct xcm_socket s; enum ts st; int closes, cleanups, destroys; };
static struct sub subs[2]; static int n_subs;
static struct xcm_tp_proto btcp_p = { "btcp", NULL };
static struct sub *sub_of(struct xcm_socket *s) { for (int i = 0; i < 2; i++) if (s == &subs[i].s) return &subs[i]; CHECK(0, "C08: only the socket's own BTCP sub-socket is used"); return &subs[0]; }
struct xcm_tp_proto *xcm_tp_proto_by_name(const char *n) { (void)n; return &btcp_p; }
struct xcm_socket *xcm_tp_socket_create(const struct xcm_tp_proto *p, enum xcm_socket_type t, struct xpoll *x, bool c, bool u, bool b)
{ (void)x; (void)c; (void)u; (void)b; CHECK(p == &btcp_p && n_subs < 2, "harness"); struct sub *sb = &subs[n_subs++]; sb->st = ts_created; sb->s.type = t; sb->s.proto = p; return &sb->s; }
int xcm_tp_socket_init(struct xcm_socket *s, struct xcm_socket *parent) { (void)parent; struct sub *sb = sub_of(s); CHECK(sb->st == ts_created, "C08: init on a fresh sub-socket"); sb->st = ts_inited; return 0; }
static int open_op(struct xcm_socket *s)
{
    struct sub *sb = sub_of(s);
    CHECK(sb->st == ts_inited, "C08: connect/server/accept on an initialised, unused sub-socket");
    if (nd_bool()) { sb->st = ts_open; return 0; }
    sb->st = ts_failed_clean; errno = nd_bool() ? EMFILE : ECONNREFUSED; return -1;
}
int xcm_tp_socket_connect(struct xcm_socket *s, const char *a) { (void)a; return open_op(s); }
int xcm_tp_socket_server(struct xcm_socket *s, const char *a) { (void)a; return open_op(s); }
int xcm_tp_socket_accept(struct xcm_socket *c, struct xcm_socket *srv) { CHECK(sub_of(srv)->st == ts_open, "C08: accept on the open server sub-socket"); return open_op(c); }
void xcm_tp_socket_close(struct xcm_socket *s) { if (s == NULL) return; struct sub *sb = sub_of(s); CHECK(sb->st == ts_inited || sb->st == ts_open, "C08: the BTCP sub-socket is closed only while initialised/open - never after its own connect/server/accept failed (it already cleaned up), never twice"); sb->st = ts_closed; sb->closes++; }
void xcm_tp_socket_cleanup(struct xcm_socket *s) { if (s == NULL) return; struct sub *sb = sub_of(s); CHECK(sb->st == ts_inited || sb->st == ts_open, "C08: cleanup only on an initialised/open sub-socket"); sb->st = ts_closed; sb->cleanups++; }
void xcm_tp_socket_destroy(struct xcm_socket *s) { if (s == NULL) return; struct sub *sb = sub_of(s); CHECK(sb->st == ts_closed || sb->st == ts_failed_clean, "C08: the BTCP sub-socket is destroyed only after it was closed/cleaned up or after its connect/server/accept failed - an open one would leak its descriptor"); sb->st = ts_destroyed; sb->destroys++; }
void xcm_tp_socket_update(struct xcm_socket *s) { (void)s; }

/* ---- bell ---- */
static int g_bell_live, g_bell_dels;
int xpoll_bell_reg_add(struct xpoll *x, bool r) { (void)x; (void)r; g_bell_live++; return 3; }
void xpoll_bell_reg_del(struct xpoll *x, int id) { (void)x; CHECK(id == 3 && g_bell_live == 1, "C08: the socket's own bell registration is deleted once"); g_bell_live--; g_bell_dels++; }
void xpoll_bell_reg_mod(struct xpoll *x, int id, bool r) { (void)x; (void)id; (void)r; }

/* ---- SSL_CTX cache reference ---- */
static struct { int d; } ctx_token;
static int g_ctx_refs, g_ctx_gets;
SSL_CTX *ctx_store_get_ctx(const struct item *cert, const struct item *key, const struct item *tc, const struct item *crl, void *ref)
{ (void)ref; g_ctx_gets++;
  CHECK(item_is_set(cert) && item_is_set(key), "C18: a context is only asked for with certificate and key designated");
  (void)tc; (void)crl;
  if (nd_bool()) { errno = EPROTO; return NULL; }
  g_ctx_refs++; return (SSL_CTX *)&ctx_token; }
void ctx_store_put(SSL_CTX *c) { CHECK(c == (SSL_CTX *)&ctx_token && g_ctx_refs > 0, "C08: only a context reference that is held is given back"); g_ctx_refs--; }

/* ---- SSL object, its BIO, its mode ---- */
static struct { int d; } bio_token;
static int g_ssl_live, g_ssl_news, g_bio_live; static bool g_bio_owned; static void *g_bio_data; static long g_mode;
SSL *SSL_new(SSL_CTX *c) { CHECK(c == (SSL_CTX *)&ctx_token, "C08: the SSL object is created from the context just obtained"); g_ssl_news++; if (nd_bool()) return NULL; g_ssl_live++; return THE_SSL; }
void SSL_free(SSL *s) { if (s == NULL) return; CHECK(s == THE_SSL && g_ssl_live == 1, "C08: the SSL object is freed once"); g_ssl_live--; if (g_bio_owned) { g_bio_owned = false; g_bio_live--; } }
long SSL_ctrl(SSL *s, int cmd, long larg, void *parg) { (void)parg; CHECK(s == THE_SSL, "harness"); if (cmd == SSL_CTRL_MODE) g_mode |= larg; return g_mode; }
BIO *BIO_new(const BIO_METHOD *m) { (void)m; g_bio_live++; return (BIO *)&bio_token; }
void BIO_set_data(BIO *b, void *d) { (void)b; g_bio_data = d; }
void SSL_set_bio(SSL *s, BIO *r, BIO *w) { CHECK(s == THE_SSL && r == (BIO *)&bio_token && w == r, "C08: one BIO serves both directions"); g_bio_owned = true; }
unsigned long ERR_peek_error(void) { return nd_bool(); }
const char *X509_verify_cert_error_string(long n) { (void)n; return "e"; }
static struct { int d; } x509_token; static int g_cert_live;
static bool g_peer_cert_present; static long g_verify_result;
X509 *SSL_get1_peer_certificate(const SSL *s) { (void)s; if (!g_peer_cert_present) return NULL; g_cert_live++; return (X509 *)&x509_token; }
long SSL_get_verify_result(const SSL *s) { (void)s; return g_verify_result; }
void X509_free(X509 *x) { if (x != NULL) g_cert_live--; }
static int g_shutdowns;
int SSL_shutdown(SSL *s) { (void)s; g_shutdowns++; return 1; }

static struct { struct xcm_socket s; struct btls_socket priv; } lsock, lsrv;
static int g_hs_calls, g_hs_rc, g_hs_err; static bool g_hs_client;
static int handshake(SSL *ssl, bool client)
{
    struct btls_socket *b = &lsock.priv;
    CHECK(ssl == THE_SSL && g_ssl_live == 1, "harness");
    g_hs_calls++; g_hs_client = client;
    /* everything that decides what the handshake accepts is in place before it starts */
    CHECK(g_set_verify_calls >= 1, "C09: the verification mode is configured before the handshake starts");
    CHECK(g_verify_mode == (b->tls_auth ? (SSL_VERIFY_PEER | (b->tls_client ? 0 : SSL_VERIFY_FAIL_IF_NO_PEER_CERT)) : SSL_VERIFY_NONE), "C09: ... from the socket's own tls.auth and role");
    CHECK(((g_flags & X509_V_FLAG_CRL_CHECK) != 0) == b->check_crl && ((g_flags & X509_V_FLAG_NO_CHECK_TIME) != 0) == !b->check_time, "C09: ... with the socket's CRL and validity-time policy");
    if (b->verify_peer_name) CHECK(g_hostflags_set && g_hosts_cleared && g_nhosts >= 1, "C09: with tls.verify_peer_name the expected names are handed to OpenSSL before the handshake starts");
    CHECK(g_bio_owned && g_bio_data == &subs[n_subs - 1].s, "C08: the handshake runs over the socket's own BTCP connection");
    CHECK((g_mode & SSL_MODE_ENABLE_PARTIAL_WRITE) && (g_mode & SSL_MODE_ACCEPT_MOVING_WRITE_BUFFER), "C02,C03: partial writes are enabled on every TLS connection (dialled or accepted), so a send reports exactly the bytes OpenSSL took and the caller may retry from another buffer");
    g_hs_rc = (int)nd_range(-1, 1);
    if (g_hs_rc < 1) { g_hs_err = (int)nd_range(SSL_ERROR_SSL, SSL_ERROR_ZERO_RETURN); ASSUME(g_hs_err == SSL_ERROR_SSL || g_hs_err == SSL_ERROR_WANT_READ || g_hs_err == SSL_ERROR_WANT_WRITE || g_hs_err == SSL_ERROR_SYSCALL || g_hs_err == SSL_ERROR_ZERO_RETURN);
	if (g_hs_err == SSL_ERROR_SYSCALL) { int k = (int)nd_range(0, 4); errno = k == 0 ? 0 : k == 1 ? EPIPE : k == 2 ? ECONNRESET : k == 3 ? ETIMEDOUT : EINPROGRESS; } }
    return g_hs_rc;
}
int SSL_connect(SSL *ssl) { return handshake(ssl, true); }
int SSL_accept(SSL *ssl) { return handshake(ssl, false); }
int SSL_get_error(const SSL *ssl, int ret) { (void)ssl; CHECK(ret == g_hs_rc, "C06: SSL_get_error asked about the call that just failed"); return g_hs_err; }

static bool g_addr_ok;
int btls_to_btcp(const char *a, char *b, size_t c) { (void)a; if (!g_addr_ok) { errno = EINVAL; return -1; } if (c > 8) strcpy(b, "btcp:a:1"); return 0; }
int xcm_addr_parse_btls(const char *a, struct xcm_addr_host *h, uint16_t *p) { (void)a; if (nd_bool()) { h->type = xcm_addr_type_name; h->name[0] = 'h'; h->name[1] = 0; } else h->type = xcm_addr_type_ip; *p = 1; return 0; }

static struct xcm_tp_proto lproto = { "btls", &btls_ops };
#define LS (&lsock.s)
#define LB (&lsock.priv)

static void nd_policy(struct btls_socket *b)
{
    /* what the application may have set through attributes between init and connect/server */
    b->tls_auth = nd_bool(); b->check_crl = nd_bool(); b->check_time = nd_bool(); b->verify_peer_name = nd_bool(); b->tls_client = nd_bool();
    if (nd_bool()) { item_set_file(&b->tc, "T", false); b->tc_set = nd_bool(); }
    if (nd_bool()) { item_set_file(&b->crl, "R", false); b->crl_set = nd_bool(); }
    if (nd_bool()) item_set_file(&b->cert, "C", false);
    if (nd_bool()) item_set_value(&b->key, "K", true);
    b->valid_peer_names = nd_names(); b->valid_peer_names_set = b->valid_peer_names != NULL && nd_bool();
}
static void all_released(struct sub *sb, bool owner)
{
    CHECK(sb->st == ts_destroyed && sb->destroys == 1, "C08: the BTCP sub-socket is destroyed exactly once when the BTLS socket is gone");
    CHECK(sb->closes + sb->cleanups <= 1, "C08: ... closed at most once");
    CHECK(g_ssl_live == 0 && g_bio_live == 0, "C08: the SSL object and its BIO are freed");
    CHECK(g_ctx_refs == 0, "C08,C18: the reference to the cached SSL_CTX is given back (a leaked reference keeps key material cached for ever)");
    CHECK(g_cert_live == 0, "C08: the peer certificate reference taken for verification is released");
    if (owner && lsock.s.type == xcm_socket_type_conn) CHECK(g_bell_live == 0, "C08: the bell registration is deleted");
    if (!owner) CHECK(g_bell_dels == 0, "C08: cleanup leaves the shared epoll/eventfd registrations alone");
}

#if defined(OP_LIFE_CONNECT) || defined(OP_LIFE_ACCEPT)
static void after_open(int rc, struct sub *sb)
{
    if (rc < 0) {
	all_released(sb, true);
	CHECK(errno != 0, "C08: a failed connect/accept reports a reason");
    } else {
	CHECK(sb->st == ts_open && g_ssl_live == 1 && g_ctx_refs == 1 && g_bio_owned, "C08: an established BTLS connection holds exactly one SSL object, one context reference, one open BTCP connection");
	CHECK(g_hs_calls >= 1, "C05: connect/accept starts the handshake with a non-blocking attempt");
	CHECK(g_hs_client == LB->tls_client, "C09: the TLS role follows tls.client");
	CHECK(LB->conn.state != conn_state_bad, "C06: a connection whose first handshake step failed hard is not returned");
	if (LB->conn.state == conn_state_ready && LB->tls_auth) CHECK(g_peer_cert_present && g_verify_result == X509_V_OK, "C09: ready with authentication only with a verified peer certificate");
	bool owner = nd_bool(), was_ready = LB->conn.state == conn_state_ready;
	if (owner) btls_close(LS); else btls_cleanup(LS);
	all_released(sb, owner);
	CHECK(g_shutdowns == ((owner && was_ready) ? 1 : 0), "C08: close of an established connection sends the TLS shutdown; cleanup (forked child) must not");
	WITNESS(!owner, "connection cleaned up in a forked child");
	WITNESS(g_hs_rc < 1 && g_hs_err == SSL_ERROR_WANT_READ, "handshake in progress after connect/accept");
    }
}
#endif

#ifdef OP_LIFE_CONNECT
int main(void)
{
    LS->proto = &lproto; LS->type = xcm_socket_type_conn;
    ASSUME(btls_init(LS, NULL) == 0);
    CHECK(LB->tls_auth && LB->check_time && LB->tls_client && !LB->check_crl, "C09: defaults: authentication and validity-time checking on");
    nd_policy(LB);
    g_addr_ok = nd_bool(); g_add_host_fail = nd_bool();
    g_peer_cert_present = nd_bool(); g_verify_result = nd_bool() ? X509_V_OK : X509_V_ERR_CERT_HAS_EXPIRED;
    errno = 0;
    int rc = btls_connect(LS, "btls:h:1");
    after_open(rc, &subs[0]);
    WITNESS(rc < 0 && g_ssl_news == 1 && subs[0].closes == 1, "failed after the SSL object existed: BTCP closed");
    WITNESS(rc < 0 && subs[0].closes == 0, "the BTCP connect itself failed");
    WITNESS(rc < 0 && g_hs_calls == 1, "first handshake step failed hard");
    return 0;
}
#endif

#ifdef OP_LIFE_ACCEPT
int main(void)
{
    lsrv.s.proto = &lproto; lsrv.s.type = xcm_socket_type_server;
    ASSUME(btls_init(&lsrv.s, NULL) == 0);
    nd_policy(&lsrv.priv);
    subs[0].st = ts_open;                              /* a serving BTLS socket */
    LS->proto = &lproto; LS->type = xcm_socket_type_conn;
    ASSUME(btls_init(LS, &lsrv.s) == 0);
    g_add_host_fail = nd_bool();
    g_peer_cert_present = nd_bool(); g_verify_result = nd_bool() ? X509_V_OK : X509_V_ERR_CERT_HAS_EXPIRED;
    errno = 0;
    int rc = btls_accept(LS, &lsrv.s);
    after_open(rc, &subs[1]);
    CHECK(subs[0].st == ts_open, "C08: accepting (or failing to) leaves the server's own BTCP socket alone");
    WITNESS(rc < 0 && subs[1].closes == 1, "accepted TCP connection closed after a TLS set-up failure");
    return 0;
}
#endif

#ifdef OP_LIFE_SERVER
int main(void)
{
    LS->proto = &lproto; LS->type = xcm_socket_type_server;
    ASSUME(btls_init(LS, NULL) == 0);
    nd_policy(LB);
    g_addr_ok = nd_bool();
    errno = 0;
    int rc = btls_server(LS, "btls:h:1");
    if (rc < 0) { all_released(&subs[0], true); WITNESS(g_ctx_gets == 1 && subs[0].closes == 0, "bind failed after the credentials were loaded"); }
    else {
	CHECK(subs[0].st == ts_open && g_ctx_refs == 1 && g_ssl_live == 0, "C08,C18: a BTLS server holds one context reference (credentials loaded early) and no SSL object");
	bool owner = nd_bool();
	if (owner) btls_close(LS); else btls_cleanup(LS);
	all_released(&subs[0], owner);
	CHECK(g_shutdowns == 0, "harness");
	WITNESS(!owner, "server cleaned up");
    }
    return 0;
}
#endif
