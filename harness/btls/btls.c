/* libxcm/tp/tls/xcm_tp_btls.c (real, incl. its BIO callbacks): one inductive
 * step of send / receive / finish / update from an arbitrary connection state,
 * over the OPENSSL contract stubs and a BYTESTREAM mock of the btcp
 * sub-socket.  Serves C02 C04 C06 C07 C09 (gate) C16 C17.
 *
 *  -DOP_SEND | OP_RECV | OP_FINISH | OP_UPDATE | OP_BIO
 */
#include "stubs.h"
#include <errno.h>
#include <string.h>
#include <openssl/ssl.h>
#include <openssl/err.h>
#include <openssl/x509.h>

/* ---- OPENSSL contract stubs ---------------------------------------------------- */
static struct { int d; } ssl_token, x509_token, lower_token_unused;
#define THE_SSL ((SSL *)&ssl_token)
static int g_hs_calls, g_hs_rc, g_hs_err;            /* handshake: return value and SSL_get_error */
static bool g_hs_is_client_call;
static int g_io_calls, g_io_rc, g_io_err, g_io_errno;  /* SSL_read/SSL_write */
static bool g_io_was_write;
static const void *g_app_buf; static size_t g_app_len;
static int g_last_rc, g_last_err;                     /* what SSL_get_error must report for the last call */
static bool g_err_queue;                              /* ERR_peek_error() != 0 at the time the failing call returned */
static int g_errq;                                    /* the thread's OpenSSL error queue: number of entries now */
static bool g_has_pending;
static bool g_peer_cert_present; static long g_verify_result;
static int g_x509_free_calls, g_peer_cert_gets;
static int g_shutdown_calls;

static void nd_ssl_outcome(int *rc, int *err, int *en, bool io, size_t len)
{
    int m = (int)nd_range(0, 5);
    *en = 0;
    switch (m) {
    case 0: *rc = io ? (int)nd_range(1, len < 1000 ? (long long)(len ? len : 1) : 1000) : 1; *err = SSL_ERROR_NONE; break;
    case 1: *rc = -1; *err = SSL_ERROR_WANT_READ; break;
    case 2: *rc = -1; *err = SSL_ERROR_WANT_WRITE; break;
    case 3: *rc = 0; *err = SSL_ERROR_ZERO_RETURN; break;
    case 4: *rc = -1; *err = SSL_ERROR_SSL; break;
    default: *rc = nd_bool() ? -1 : 0; *err = SSL_ERROR_SYSCALL;
	{ static const int es[] = { 0, EPIPE, ECONNRESET, ETIMEDOUT, EHOSTUNREACH, ENETUNREACH, EINPROGRESS }; *en = es[nd_range(0, 6)]; }
	break;
    }
    /* OPENSSL contract, error queue: a failing call pushes its reasons onto the THREAD's error queue - always for SSL_ERROR_SSL,
       sometimes for SSL_ERROR_SYSCALL - and SSL_get_error() of ANY later call on ANY connection of the thread reports
       SSL_ERROR_SSL while entries are left ("the error queue must be empty before the I/O operation is attempted") */
    if (*err == SSL_ERROR_SSL) g_errq += 1 + (nd_bool() ? 1 : 0);
    else if (*err == SSL_ERROR_SYSCALL && *rc < 0 && nd_bool()) g_errq += 1;     /* (ret == 0 with SSL_ERROR_SYSCALL is the bare EOF of pre-3.0 OpenSSL: nothing queued) */
    g_err_queue = g_errq != 0;
}
static int handshake(SSL *ssl, bool client)
{
    CHECK(ssl == THE_SSL, "C09: handshake on the connection's own SSL object");
    g_hs_calls++; g_hs_is_client_call = client;
    int en;
    nd_ssl_outcome(&g_hs_rc, &g_hs_err, &en, false, 0);
    g_last_rc = g_hs_rc; g_last_err = g_hs_err; errno = en; g_io_errno = en;
    return g_hs_rc;
}
int SSL_connect(SSL *ssl) { return handshake(ssl, true); }
int SSL_accept(SSL *ssl) { return handshake(ssl, false); }
static bool g_ssl_captured;      /* OpenSSL holds bytes of a call it refused */
static int ssl_io(SSL *ssl, const void *buf, size_t len, bool write)
{
    g_io_calls++; g_io_was_write = write;
    CHECK(ssl == THE_SSL, "C02: I/O on the connection's own SSL object");
    CHECK(buf == g_app_buf && len == g_app_len, "C02: one SSL_read/SSL_write with the caller's buffer and length");
    int en;
    nd_ssl_outcome(&g_io_rc, &g_io_err, &en, true, len);
    g_last_rc = g_io_rc; g_last_err = g_io_err; g_io_errno = en; errno = en;
    /* OPENSSL contract, pending write record (SSL_write(3), ssl3_write_pending): when SSL_write reports WANT_WRITE/WANT_READ it may
       already have taken up to one record (16 KB) of the caller's bytes, encrypted them, and will put them on the wire on the next
       SSL_write - whatever that call is given (with ACCEPT_MOVING_WRITE_BUFFER it only checks that the new length is not smaller) */
    if (write && g_io_rc <= 0 && (g_io_err == SSL_ERROR_WANT_WRITE || g_io_err == SSL_ERROR_WANT_READ)) {
	g_ssl_captured = nd_bool();
#ifdef KF_BTLS_REFUSED_BYTES_CAPTURED
	ASSUME(!g_ssl_captured);      /* known finding C02-btls-refused-send-captured assumed away */
#endif
    }
    return g_io_rc;
}
int SSL_write(SSL *ssl, const void *buf, int num) { return ssl_io(ssl, buf, (size_t)num, true); }
int SSL_read(SSL *ssl, void *buf, int num) { return ssl_io(ssl, buf, (size_t)num, false); }
int SSL_get_error(const SSL *ssl, int ret) { CHECK(ssl == THE_SSL && ret == g_last_rc, "C06: SSL_get_error asked about the call that just failed"); return g_last_err; }
unsigned long ERR_peek_error(void) { return g_errq != 0 ? 1 : 0; }
int SSL_has_pending(const SSL *ssl) { (void)ssl; return g_has_pending; }
X509 *SSL_get1_peer_certificate(const SSL *ssl) { (void)ssl; g_peer_cert_gets++; return g_peer_cert_present ? (X509 *)&x509_token : NULL; }
long SSL_get_verify_result(const SSL *ssl) { (void)ssl; return g_verify_result; }
void X509_free(X509 *x) { if (x != NULL) g_x509_free_calls++; }
const char *X509_verify_cert_error_string(long n) { (void)n; return "x"; }
int SSL_shutdown(SSL *ssl) { (void)ssl; g_shutdown_calls++; return 1; }

/* ---- lower (btcp) socket mock + XPOLL --------------------------------------------- */
#include "xcm_tp.h"
static struct xcm_socket lower;
static int g_lower_update_calls, g_lower_update_cond = -1, g_lower_finish_calls, g_lower_finish_rc, g_lower_finish_errno;
static int g_lower_send_calls, g_lower_recv_calls, g_lower_rc, g_lower_errno;
static int g_bell = -1, g_bell_calls;
#define BELL_REG 4
void xcm_tp_socket_update(struct xcm_socket *s) { CHECK(s == &lower, "C04: update goes to the connection's own sub-socket"); g_lower_update_calls++; g_lower_update_cond = s->condition; }
int xcm_tp_socket_finish(struct xcm_socket *s)
{ CHECK(s == &lower, "C04: finish goes to the connection's own sub-socket"); g_lower_finish_calls++; if (nd_bool()) { g_lower_finish_rc = 0; return 0; } g_lower_finish_rc = -1; g_lower_finish_errno = nd_bool() ? EAGAIN : ECONNRESET; errno = g_lower_finish_errno; return -1; }
int xcm_tp_socket_send(struct xcm_socket *s, const void *buf, size_t len)
{ (void)buf; CHECK(s == &lower, "C02: BIO writes go to the connection's own sub-socket"); g_lower_send_calls++; int m = (int)nd_range(0, 2); if (m == 0) { g_lower_rc = (int)nd_range(1, len ? (long long)len : 1); return g_lower_rc; } g_lower_rc = -1; g_lower_errno = m == 1 ? EAGAIN : (nd_bool() ? EPIPE : ECONNRESET); errno = g_lower_errno; return -1; }
int xcm_tp_socket_receive(struct xcm_socket *s, void *buf, size_t cap)
{ (void)buf; CHECK(s == &lower, "C02: BIO reads come from the connection's own sub-socket"); g_lower_recv_calls++; int m = (int)nd_range(0, 3); if (m == 0) { g_lower_rc = (int)nd_range(1, cap ? (long long)cap : 1); return g_lower_rc; } if (m == 1) { g_lower_rc = 0; return 0; } g_lower_rc = -1; g_lower_errno = m == 2 ? EAGAIN : ECONNRESET; errno = g_lower_errno; return -1; }
void xpoll_bell_reg_mod(struct xpoll *x, int id, bool ringing) { (void)x; CHECK(id == BELL_REG, "C04: the connection's own bell"); g_bell_calls++; g_bell = ringing; }
int xpoll_get_fd(struct xpoll *x) { (void)x; return 9; }
void xcm_tp_register(const char *n, const struct xcm_tp_ops *o) { (void)n; (void)o; }
void ctx_store_init(void) { }
/* error-stack formatting for the (disabled) debug log; note: the real one drains OpenSSL's error queue */
void log_tls_get_error_stack(char *buf, size_t capacity) { if (capacity > 0) buf[0] = 0; g_errq = 0; }     /* the real one formats and DRAINS the queue: while (ERR_get_error() != 0) */

/* BIO flag ghost (the BIO object itself is OpenSSL's) */
static int g_bio_flags;
void *BIO_get_data(BIO *b) { (void)b; return &lower; }
void BIO_set_flags(BIO *b, int f) { (void)b; g_bio_flags |= f; }
void BIO_clear_flags(BIO *b, int f) { (void)b; g_bio_flags &= ~f; }
int BIO_test_flags(const BIO *b, int f) { (void)b; return g_bio_flags & f; }

#include "xcm_tp_btls.c"

static struct { struct xcm_socket s; struct btls_socket priv; } sock;
#define S (&sock.s)
#define BTS (&sock.priv)
static struct xcm_tp_proto proto = { "btls", &btls_ops };
struct pre { enum conn_state state; int reason, sc, sw; int64_t cnts[8]; };
static struct pre pre;

static bool dir_ok(int v) { return v == XCM_SO_SENDABLE || v == XCM_SO_RECEIVABLE; }

static void build_conn(void)
{
    CHECK((char *)BTS == (char *)S + sizeof(struct xcm_socket), "harness: private area follows struct xcm_socket");
    S->proto = &proto; S->type = xcm_socket_type_conn; S->xpoll = (struct xpoll *)&sock; S->condition = (int)nd_range(0, 3);
    BTS->btcp_socket = &lower; lower.type = xcm_socket_type_conn; lower.condition = (int)nd_range(0, 3);
    BTS->conn.ssl = THE_SSL; BTS->conn.bell_reg_id = BELL_REG;
    BTS->tls_auth = nd_bool(); BTS->tls_client = nd_bool(); BTS->check_crl = nd_bool(); BTS->check_time = nd_bool(); BTS->verify_peer_name = nd_bool();
    int st = (int)nd_range(conn_state_tls_handshaking, conn_state_closed);
    BTS->conn.state = (enum conn_state)st;
    BTS->conn.badness_reason = st == conn_state_bad ? (int)nd_range(1, 200) : 0;
    /* INV: (ssl_condition, ssl_wants) is (0,0) or a pair of directions; handshaking always wants something */
    if (nd_bool()) { BTS->conn.ssl_condition = 0; BTS->conn.ssl_wants = nd_bool() ? 0 : XCM_SO_RECEIVABLE; }
    else { BTS->conn.ssl_condition = nd_bool() ? XCM_SO_SENDABLE : XCM_SO_RECEIVABLE; BTS->conn.ssl_wants = nd_bool() ? XCM_SO_SENDABLE : XCM_SO_RECEIVABLE; }
    if (st == conn_state_tls_handshaking) { BTS->conn.ssl_condition = 0; BTS->conn.ssl_wants = nd_bool() ? XCM_SO_SENDABLE : XCM_SO_RECEIVABLE; }
    for (int i = 0; i < 8; i++) { BTS->conn.cnts[i] = (int64_t)nd_range(0, 1LL << 60); pre.cnts[i] = BTS->conn.cnts[i]; }
    pre.state = BTS->conn.state; pre.reason = BTS->conn.badness_reason; pre.sc = BTS->conn.ssl_condition; pre.sw = BTS->conn.ssl_wants;
    g_has_pending = nd_bool(); g_peer_cert_present = nd_bool(); g_verify_result = nd_bool() ? X509_V_OK : (long)nd_range(1, 90);
}

static void check_inv(void)
{
    enum conn_state st = BTS->conn.state;
    CHECK(st >= conn_state_tls_handshaking && st <= conn_state_closed, "C06: INV legal state");
    if (pre.state == conn_state_closed) CHECK(st == conn_state_closed, "C06: closed is terminal");
    if (pre.state == conn_state_bad) CHECK(st == conn_state_bad && BTS->conn.badness_reason == pre.reason, "C06: bad is terminal and keeps its errno");
    if (st == conn_state_bad) CHECK(BTS->conn.badness_reason != 0, "C06: INV a bad connection carries its errno");
    if (pre.state == conn_state_ready) CHECK(st != conn_state_tls_handshaking, "C09: a connection never goes back to handshaking");
    int sc = BTS->conn.ssl_condition, sw = BTS->conn.ssl_wants;
    if (st == conn_state_ready) CHECK(sc == 0 || (dir_ok(sc) && dir_ok(sw)), "C04: INV (ssl_condition, ssl_wants) records the last refused OpenSSL call or nothing");
    if (st == conn_state_tls_handshaking) CHECK(dir_ok(sw), "C04: INV a pending handshake knows what OpenSSL waits for");
    for (int i = 0; i < 8; i++) CHECK(BTS->conn.cnts[i] >= pre.cnts[i], "C17: counters never decrease");
    /* the gate */
    if (pre.state == conn_state_tls_handshaking && st == conn_state_ready) {
	CHECK(g_hs_calls >= 1 && g_hs_rc == 1, "C09: the connection becomes usable only after the handshake function reported success");
	CHECK(g_hs_is_client_call == BTS->tls_client, "C09: SSL_connect for the TLS client role, SSL_accept for the server role");
	if (BTS->tls_auth) CHECK(g_peer_cert_present && g_verify_result == X509_V_OK, "C09: with tls.auth on, usable only if the peer presented a certificate and OpenSSL's verification result is OK");
    }
    if (pre.state == conn_state_tls_handshaking && g_hs_calls >= 1 && g_hs_rc == 1 && BTS->tls_auth && !(g_peer_cert_present && g_verify_result == X509_V_OK))
	CHECK(st == conn_state_bad && BTS->conn.badness_reason == EPROTO, "C09: a peer failing the policy is reported as EPROTO");
    CHECK(g_x509_free_calls == (g_peer_cert_gets && g_peer_cert_present ? 1 : 0), "C08: the peer certificate reference is released");
}

static char appbuf[16];
#if defined(OP_SEND) || defined(OP_RECV) || defined(OP_FINISH)
int main(void)
{
    build_conn();
    g_app_buf = appbuf; g_app_len = (size_t)nd_range(1, 100000);
    errno = 0;
#ifdef OP_SEND
    int rc = btls_send(S, appbuf, g_app_len);
#elif defined(OP_RECV)
    int rc = btls_receive(S, appbuf, g_app_len);
#else
    int rc = btls_finish(S);
#endif
    int e = errno;
    enum conn_state st = BTS->conn.state;
    /* no application data unless the connection is (still) ready at the time of the call */
    if (g_io_calls > 0) {
	CHECK(g_io_calls == 1, "C02: at most one SSL_read/SSL_write per call");
	CHECK(pre.state == conn_state_ready || (pre.state == conn_state_tls_handshaking && g_hs_rc == 1 && (!BTS->tls_auth || (g_peer_cert_present && g_verify_result == X509_V_OK))),
	      "C09: application data is neither read nor written unless the connection is established and the peer passed the policy");
    }
    if (pre.state == conn_state_bad) { CHECK(rc == -1 && e == pre.reason && g_io_calls == 0 && g_hs_calls == 0, "C06,C07: a failed connection keeps reporting its errno; OpenSSL is not entered again"); }
    else if (pre.state == conn_state_closed) {
#ifdef OP_RECV
	CHECK(rc == 0 && g_io_calls == 0, "C06: once closed, receive keeps returning 0");
#else
	CHECK(rc == -1 && e == EPIPE && g_io_calls == 0, "C06: once closed, send/finish fail with EPIPE");
#endif
    } else if (st == conn_state_tls_handshaking) { CHECK(rc == -1 && e == EAGAIN && g_io_calls == 0, "C05,C09: while handshaking the call reports EAGAIN; no application data moves"); }
    else {
#ifdef OP_FINISH
	if (st == conn_state_ready) CHECK(g_lower_finish_calls == 1 && rc == g_lower_finish_rc, "C04: finish of a ready connection is the sub-socket's finish");
	if (rc == 0) CHECK(st == conn_state_ready, "C09: xcm_finish succeeds only on an established connection whose peer passed the policy");
	if (pre.state == conn_state_ready) CHECK(BTS->conn.ssl_condition == pre.sc && BTS->conn.ssl_wants == pre.sw, "C16: finish on an established connection does not forget what the last refused OpenSSL call is waiting for");
	WITNESS(rc == 0 && pre.state == conn_state_tls_handshaking, "handshake completed by finish");
#else
	if (g_io_calls == 1) {
#ifdef OP_SEND
	    CHECK(g_io_was_write, "C02: send writes");
	    if (g_io_rc > 0) {
		CHECK(rc == g_io_rc && (size_t)rc <= g_app_len, "C02: the number of bytes OpenSSL accepted is returned");
		CHECK(BTS->conn.cnts[xcm_tp_cnt_from_app_bytes] == pre.cnts[xcm_tp_cnt_from_app_bytes] + rc && BTS->conn.cnts[xcm_tp_cnt_to_lower_bytes] == pre.cnts[xcm_tp_cnt_to_lower_bytes] + rc, "C17: from_app/to_lower count exactly the accepted bytes");
	    }
#else
	    CHECK(!g_io_was_write, "C02: receive reads");
	    if (g_io_rc > 0) {
		CHECK(rc == g_io_rc && (size_t)rc <= g_app_len, "C02: receive returns what OpenSSL delivered, never more than capacity");
		CHECK(BTS->conn.cnts[xcm_tp_cnt_to_app_bytes] == pre.cnts[xcm_tp_cnt_to_app_bytes] + rc && BTS->conn.cnts[xcm_tp_cnt_from_lower_bytes] == pre.cnts[xcm_tp_cnt_from_lower_bytes] + rc, "C17: from_lower/to_app count exactly the delivered bytes");
	    }
#endif
	    if (g_io_rc <= 0) {
		for (int i = 0; i < 4; i++) CHECK(BTS->conn.cnts[i] == pre.cnts[i], "C17: a call that moved no data counts nothing");
		/* mapping of OpenSSL's verdict (C06/C07) */
		bool want = g_io_err == SSL_ERROR_WANT_READ || g_io_err == SSL_ERROR_WANT_WRITE;
		bool proto_err = g_io_err == SSL_ERROR_SSL || (g_io_err == SSL_ERROR_SYSCALL && g_err_queue);
		bool closed = g_io_err == SSL_ERROR_ZERO_RETURN || (g_io_err == SSL_ERROR_SYSCALL && !g_err_queue && (g_io_errno == 0 || g_io_errno == EPIPE));
#ifdef OP_SEND
		if (g_io_rc == 0) { closed = true; want = false; proto_err = false; }
#endif
		if (want) {
		    CHECK(rc == -1 && e == EAGAIN && st == conn_state_ready, "C02,C05: OpenSSL back-pressure is reported as EAGAIN");
#ifdef OP_SEND
		    CHECK(!g_ssl_captured, "C02,C03: bytes offered in a send that is refused with EAGAIN never appear in the stream - but OpenSSL has captured up to one record of them and emits it with the next SSL_write, whatever the application offers then");
#endif
		    int dir =
#ifdef OP_SEND
			XCM_SO_SENDABLE;
#else
			XCM_SO_RECEIVABLE;
#endif
		    CHECK(BTS->conn.ssl_condition == dir && BTS->conn.ssl_wants == (g_io_err == SSL_ERROR_WANT_READ ? XCM_SO_RECEIVABLE : XCM_SO_SENDABLE), "C04: what the refused call waits for is recorded for the readiness logic");
		} else if (proto_err) CHECK(rc == -1 && e == EPROTO && st == conn_state_bad, "C07: garbage or any TLS protocol violation is reported as EPROTO and poisons the connection");
		else if (closed) {
		    CHECK(st == conn_state_closed, "C06: an orderly or early close by the peer closes the connection");
#ifdef OP_SEND
		    CHECK(rc == -1 && e == EPIPE, "C06: send reports EPIPE");
#else
		    CHECK(rc == 0, "C06: receive reports 0");
#endif
		} else if (g_io_err == SSL_ERROR_SYSCALL && g_io_errno != EINPROGRESS) CHECK(rc == -1 && e == g_io_errno && st == conn_state_bad && BTS->conn.badness_reason == g_io_errno, "C06: a connection failure below TLS is reported and remembered with its errno");
		WITNESS(proto_err, "protocol error during I/O");
		WITNESS(g_io_err == SSL_ERROR_SYSCALL && !g_err_queue && g_io_errno == ETIMEDOUT, "timeout below TLS");
	    }
	}
#endif
    }
    CHECK(g_errq == 0, "C07: the thread's OpenSSL error queue is empty again when the call returns: entries left behind by one peer's garbage would make the next SSL_read/SSL_write of ANY other connection in this thread look like a protocol error (EPROTO, connection lost)");
    check_inv();
    return 0;
}
#endif

#ifdef OP_UPDATE
/* the relational wake-up / quiet specification (DESIGN C04, C16) */
int main(void)
{
    build_conn();
    int C = S->condition, sc = BTS->conn.ssl_condition, sw = BTS->conn.ssl_wants;
    btls_update(S);
    int L = lower.condition;
    bool bell = g_bell == 1;
    CHECK(g_bell_calls >= 1, "C04: the bell is set or cleared on every update");
    if (!bell) CHECK(g_lower_update_calls >= 1 && g_lower_update_cond == L, "C04: the sub-socket is updated after its condition was set");
    switch (pre.state) {
    case conn_state_closed: case conn_state_bad:
	CHECK(bell, "C04: a closed or failed connection is immediately readable"); break;
    case conn_state_tls_handshaking:
	CHECK(!bell && L == sw, "C04,C16: while handshaking the socket waits for exactly what OpenSSL asked for"); break;
    case conn_state_ready:
	if (C == 0) CHECK(!bell && L == 0, "C16: nothing awaited: no bell, no interest below (quiet when idle)");
	for (int d = 1; d <= 2; d++) if (C & d) {
	    bool live = bell || (sc == d && (L & sw)) || (sc != d && (L & d) && (d == XCM_SO_SENDABLE || !g_has_pending));
	    CHECK(live, "C04: no lost wake-up: each awaited direction either rings the bell, or waits below for what its refused OpenSSL call needs, or (no refused call) for the direction itself");
	}
	if ((C & XCM_SO_RECEIVABLE) && g_has_pending) CHECK(bell, "C04,C16: plaintext already buffered in OpenSSL makes the socket readable at once");
	if (C == XCM_SO_RECEIVABLE && sc == XCM_SO_RECEIVABLE && sw == XCM_SO_RECEIVABLE && !g_has_pending)
	    CHECK(!bell && L == XCM_SO_RECEIVABLE, "C16: RECEIVABLE after receive said EAGAIN and nothing arrived: not readable, only RECEIVABLE below");
	if (C != 0 && C == sc && !g_has_pending) CHECK(!bell && L == sw, "C16: waiting for the refused call's need only (no spinning)");
	WITNESS(C == 3 && sc == XCM_SO_SENDABLE && sw == XCM_SO_SENDABLE && !g_has_pending, "send back-pressure while awaiting both directions");
	break;
    default: break;
    }
    CHECK(g_io_calls == 0 && g_hs_calls == 0 && BTS->conn.state == pre.state, "C16: update performs no I/O and changes no state");
    return 0;
}
#endif

#ifdef OP_BIO
/* the BIO glue between OpenSSL and the btcp sub-socket */
int main(void)
{
    BIO *b = (BIO *)&lower_token_unused;
    g_bio_flags = nd_int() & (BIO_FLAGS_RWS | BIO_FLAGS_SHOULD_RETRY);
    bool wr = nd_bool();
    int len = (int)nd_range(1, 70000);
    int rc = wr ? bio_btcp_write(b, appbuf, len) : bio_btcp_read(b, appbuf, len);
    CHECK(g_lower_send_calls + g_lower_recv_calls == 1 && rc == g_lower_rc, "C02: one sub-socket call per BIO call, result passed through (no byte invented or dropped between OpenSSL and TCP)");
    bool retry = (g_bio_flags & BIO_FLAGS_SHOULD_RETRY) != 0;
    CHECK(retry == (rc < 0 && g_lower_errno == EAGAIN), "C02,C04: OpenSSL is told to retry exactly when the sub-socket said EAGAIN");
    if (retry) CHECK(((g_bio_flags & BIO_FLAGS_WRITE) != 0) == wr && ((g_bio_flags & BIO_FLAGS_READ) != 0) == !wr, "C04: the retry direction is the direction of the call");
    if (!wr && rc == 0) CHECK(bio_btcp_ctrl(b, BIO_CTRL_EOF, 0, NULL) == 1, "C06: end of stream is visible to OpenSSL");
    WITNESS(retry && wr, "write refused with EAGAIN");
    return 0;
}
#endif
