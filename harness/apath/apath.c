/* libxcm/core/attr_path.c: parse / print of attribute path names on ALL byte
 * strings of up to NSTR characters.  Serves C19 (canonical paths) and C10
 * (no name string causes a crash).  With the scaled twin
 * (ATTR_PATH_COMP_MAX / ATTR_PATH_NAME_MAX replaced by small values by the
 * driver) the table-size boundaries are inside the bound.
 *   -DNSTR=n   -DROOT=1|0
 */
#include "stubs.h"
#define STR_MAX 24
#include "libc_str.h"
#define strtol(s, e, b) m_strtol10(s, e)
#define strtoul(s, e, b) m_strtoul10(s, e)
#define snprintf m_snprintf

#include "attr_path.h"
#ifndef NSTR
#define NSTR 7
#endif
#ifndef ROOT
#define ROOT 1
#endif
#define KEYALLOC (NSTR + 2)
#define STRALLOC (2 * NSTR + 4)

/* fixed-size heap objects (symbolic-size objects are out of reach, DESIGN 1.3) */
static int g_allocs, g_frees;
void *ut_malloc(size_t size)
{
    void *p;
    if (size == sizeof(void *) * 2) p = malloc(sizeof(void *) * 2);           /* struct attr_pcomp */
    else { CHECK(size <= STRALLOC, "harness: string allocation within the modelled size"); p = malloc(STRALLOC); }
    ASSUME(p != NULL);
    g_allocs++;
    return p;
}
void *ut_calloc(size_t size)
{
    /* struct attr_path: exact size, so that any write outside it is a bounds violation */
    void *p = calloc(1, sizeof(void *) * ATTR_PATH_COMP_MAX + sizeof(size_t));
    CHECK(size == sizeof(void *) * ATTR_PATH_COMP_MAX + sizeof(size_t), "harness: ut_calloc is used for struct attr_path only");
    ASSUME(p != NULL);
    g_allocs++;
    return p;
}
char *ut_strdup(const char *s)
{
    char *p = malloc(KEYALLOC);
    ASSUME(p != NULL);
    g_allocs++;
    size_t i;
    for (i = 0; i < KEYALLOC - 1 && s[i] != '\0'; i++) p[i] = s[i];
    CHECK(s[i] == '\0', "harness: key within the modelled size");
    p[i] = '\0';
    return p;
}
void ut_free(void *p) { if (p != NULL) g_frees++; free(p); }

#include "attr_path.c"
#undef snprintf
#undef strtol
#undef strtoul

/* ---- reference recogniser of the documented syntax ------------------------
 * root path:      key ( '.' key | '[' digits ']' )*
 * relative path:      ( '.' key | '[' digits ']' )*
 * key = one or more characters other than '.', '[' and ']'.
 * Returns the number of components, or -1. */
static bool ref_special(char c) { return c == '.' || c == '[' || c == ']'; }
static int ref_parse(const char *s, bool root, size_t *canon_len)
{
    size_t i = 0; int n = 0; size_t cl = 0;
    if (root) {
	if (s[0] == '\0') return 0;
	size_t k = 0; while (s[i] != '\0' && !ref_special(s[i])) { i++; k++; }
	if (k == 0) return -1;
	n = 1; cl = k;
    }
    while (s[i] != '\0') {
	if (s[i] == '.') {
	    i++; size_t k = 0; while (s[i] != '\0' && !ref_special(s[i])) { i++; k++; }
	    if (k == 0) return -1;
	    n++; cl += k + 1;
	} else if (s[i] == '[') {
	    i++; size_t k = 0, nz = 0; bool lead = true;
	    while (s[i] >= '0' && s[i] <= '9') { if (lead && s[i] == '0') ; else { lead = false; nz++; } i++; k++; }
	    if (k == 0 || s[i] != ']') return -1;
	    i++; n++; cl += (nz ? nz : 1) + 2;
	} else
	    return -1;
    }
    *canon_len = cl;
    return n;
}

#ifdef OP_INDEX
/* one list index at the edge of the index type, as a CONSTANT string per obligation (IDX, FITS): "[IDX]" as a relative path at
 * real table sizes.  Accepted <=> the value fits the type the path prints with (%zd, i.e. <= LONG_MAX - 1); an accepted index
 * prints as the same digits and the printed form parses to an equal path.  (Twenty symbolic digits did not get through
 * symbolic execution in 12 minutes; on literals CBMC folds the computation.) */
int main(void)
{
    static const char in[] = "[" IDX "]";
    struct attr_path *p = attr_path_parse(in, false);
    CHECK((p != NULL) == (FITS != 0), "C19: an index is accepted exactly if it is one the printer can print (0 .. LONG_MAX-1)");
#if !FITS
    return 0;      /* (printing a wrongly accepted 20-digit index through the model runs the solver out of memory: the verdict is the line above) */
#endif
    if (p != NULL) {
	char *str = attr_path_to_str(p, false);
	CHECK(strlen(str) == attr_path_len(p, false), "C19: attr_path_len = length of the printed path");
	CHECK(strcmp(str, in) == 0, "C19: an accepted index prints as its own digits");
	struct attr_path *q = attr_path_parse(str, false);
	CHECK(q != NULL && attr_path_equal(p, q), "C19: parsing a printed path gives an equal path - for every index the parser accepts");
	CHECK(attr_path_equal_str(p, str, false), "C19: equal_str agrees on the printed form");
	attr_path_destroy(q); ut_free(str); attr_path_destroy(p);
    }
    return 0;
}
#else
int main(void)
{
    char in[NSTR + 1];
    for (int i = 0; i < NSTR; i++) in[i] = (char)nd_u8();
    in[NSTR] = '\0';
    bool root = ROOT;
    size_t canon = 0;
    int refn = ref_parse(in, root, &canon);
    bool ref_ok = refn >= 0 && refn <= ATTR_PATH_COMP_MAX && strlen(in) <= ATTR_PATH_NAME_MAX;

    struct attr_path *p = attr_path_parse(in, root);

    if (p != NULL) {
	CHECK(refn >= 0, "C19,C10: an accepted string has the documented syntax key(.key|[digits])*");
	CHECK(strlen(in) <= ATTR_PATH_NAME_MAX, "C19,C10: a string over the length limit is rejected");
	CHECK(attr_path_num_comps(p) <= ATTR_PATH_COMP_MAX, "C19,C10: a path never has more components than the table holds");
	CHECK((int)attr_path_num_comps(p) == refn, "C19: number of components as written");
#ifdef WITH_PRINT
	/* canonical printing */
	char *str = attr_path_to_str(p, root);
	size_t sl = strlen(str);
	CHECK(sl == attr_path_len(p, root), "C19: attr_path_len = length of the printed path");
	CHECK(sl == canon, "C19: the printed path is the canonical spelling (indices without leading zeros)");
	struct attr_path *q = attr_path_parse(str, root);
	CHECK(q != NULL && attr_path_equal(p, q) && attr_path_equal(q, p), "C19: parsing a printed path gives an equal path");
	CHECK(attr_path_equal_str(p, in, root), "C19: equal_str agrees with parse + equal");
	attr_path_destroy(q);
	ut_free(str);
#if NSTR >= 5 || !ROOT
	WITNESS(sl < strlen(in), "index with a leading zero canonicalised");
#endif
#endif
	attr_path_destroy(p);
	WITNESS(refn == ATTR_PATH_COMP_MAX || refn == NSTR / 2, "deepest path within the bound accepted");
    } else {
	CHECK(!ref_ok, "C19: a string with the documented syntax and within the limits is accepted");
#if (NSTR + ROOT) / 2 > ATTR_PATH_COMP_MAX
#if NSTR > ATTR_PATH_NAME_MAX
	WITNESS(refn >= 0 && strlen(in) > ATTR_PATH_NAME_MAX, "over-long name rejected");
#else
	WITNESS(refn > ATTR_PATH_COMP_MAX && strlen(in) <= ATTR_PATH_NAME_MAX, "too many components - in a string within the length limit - rejected");
#endif
#endif
	WITNESS(refn < 0, "malformed string rejected");
    }
    CHECK(g_allocs == g_frees, "C19,C10: nothing is leaked, whether the string is accepted or rejected");
    return 0;
}
#endif /* OP_INDEX */
