/* libxcm/ctl/ctl.c (real): the library side of the control interface, one
 * event from an arbitrary valid `struct ctl` (0..2 sessions, stale reply
 * buffers arbitrary), with the request datagram ARBITRARY BYTES, over mocks of
 * xcm_attr_get/xcm_attr_get_all (any result the attribute layer may produce),
 * the kernel and xpoll.  With the protocol constants scaled by the driver
 * (CTL_PROTO_MAX_ATTRS, CTL_ATTR_VALUE_MAX, XCM_ATTR_NAME_MAX) every table
 * boundary is inside the bound.  Serves C14 C08 C05.
 *
 *  -DOP_REQ | OP_PROCESS | OP_DESTROY | OP_CREATE
 */
#include "stubs.h"
#include <errno.h>
#include <string.h>
#include <sys/epoll.h>
#include <sys/socket.h>
#include <sys/stat.h>
#include "ctl_proto.h"
#include "xcm_attr_names.h"
#include "xcm.h"
#include "xcm_attr.h"
#include "xcm_tp.h"

#define MSGSZ sizeof(struct ctl_proto_msg)
static const uint8_t SECRET[4] = { 0xde, 0xad, 0xbe, 0xef };   /* the value of tls.key */

/* ---- attribute layer mock (xcm.c's own guarantees are C10's) -------------------- */
static int g_get_calls; static bool g_name_terminated; static bool g_asked_key; static int g_get_rc, g_get_errno; static enum xcm_attr_type g_get_type;
static uint8_t g_get_value[CTL_ATTR_VALUE_MAX];
int xcm_attr_get(struct xcm_socket *s, const char *name, enum xcm_attr_type *type, void *value, size_t capacity)
{
    (void)s; g_get_calls++;
#ifdef OP_PROCESS
    errno = ENOENT; return -1;
#endif
    g_name_terminated = false;
    for (size_t i = 0; i < XCM_ATTR_NAME_MAX; i++) if (name[i] == '\0') { g_name_terminated = true; break; }
    CHECK(g_name_terminated, "C14: the attribute name handed to the attribute layer is NUL-terminated inside the request's name field (an unterminated name is not read past the field)");
    CHECK(capacity == CTL_ATTR_VALUE_MAX, "C14: the reply's value field is the capacity");
    g_asked_key = g_name_terminated && strcmp(name, XCM_ATTR_TLS_KEY) == 0;
    if (nd_bool()) { g_get_rc = -1; g_get_errno = nd_bool() ? ENOENT : (nd_bool() ? EOVERFLOW : EINVAL); errno = g_get_errno; return -1; }
    size_t n = (size_t)nd_range(0, CTL_ATTR_VALUE_MAX);
    g_get_type = (enum xcm_attr_type)nd_range(xcm_attr_type_bool, xcm_attr_type_double); *type = g_get_type;
    for (size_t i = 0; i < CTL_ATTR_VALUE_MAX; i++) if (i < n) { g_get_value[i] = g_asked_key ? SECRET[i % 4] : (uint8_t)(nd_u8() | 1); ((uint8_t *)value)[i] = g_get_value[i]; }
    g_get_rc = (int)n;
    return (int)n;
}
#define NALL (CTL_PROTO_MAX_ATTRS + 1)
static int g_all_n; static size_t g_all_len[NALL]; static size_t g_all_namelen[NALL]; static bool g_all_is_key[NALL];
void xcm_attr_get_all(struct xcm_socket *s, xcm_attr_cb cb, void *cb_data)
{
    (void)s;
#ifdef OP_PROCESS
    return;    /* request contents are the REQ obligation's; PROCESS never delivers a full-size request */
#endif
    g_all_n = (int)nd_range(0, NALL);                      /* more attributes than the reply can hold */
    for (int k = 0; k < NALL; k++) if (k < g_all_n) {
	char name[XCM_ATTR_NAME_MAX + 4]; uint8_t val[2 * CTL_ATTR_VALUE_MAX];
	g_all_is_key[k] = nd_bool();
	size_t nl = g_all_is_key[k] ? strlen(XCM_ATTR_TLS_KEY) : (size_t)nd_range(1, XCM_ATTR_NAME_MAX + 2);   /* also names too long for the field */
	for (size_t i = 0; i < XCM_ATTR_NAME_MAX + 3; i++) name[i] = i < nl ? (g_all_is_key[k] ? XCM_ATTR_TLS_KEY[i] : 'n') : '\0';
	size_t vl = (size_t)nd_range(0, 2 * CTL_ATTR_VALUE_MAX);   /* also values too long for the field (by-value PEM credentials) */
	for (size_t i = 0; i < 2 * CTL_ATTR_VALUE_MAX; i++) val[i] = g_all_is_key[k] ? SECRET[i % 4] : 0x11;
	g_all_len[k] = vl; g_all_namelen[k] = nl;
	cb(name, (enum xcm_attr_type)nd_range(xcm_attr_type_bool, xcm_attr_type_double), val, vl, cb_data);
    }
}

/* ---- kernel / xpoll / util ---------------------------------------------------------- */
#define LISTEN_FD 10
#define CFD0 11
static int g_recv_calls, g_recv_rc, g_send_calls, g_send_rc, g_send_errno; static size_t g_send_len; static const void *g_send_buf;
static int g_close_calls, g_closed_fd[4]; static int g_unlink_calls; static int g_next_cfd = CFD0 + 2;
static bool g_may_block_seen;
ssize_t recv(int fd, void *buf, size_t len, int flags)
{
    (void)fd; g_recv_calls++;
    CHECK(len == MSGSZ && (flags & (MSG_PEEK | MSG_WAITALL | MSG_OOB)) == 0, "C14: one datagram of at most the message size is read");
    int m = (int)nd_range(0, 4);
#ifdef OP_PROCESS
    if (m == 0) m = 1;     /* session bookkeeping only: request contents are the REQ obligation's */
#endif
#ifndef OP_PROCESS
    if (m == 0) { g_recv_rc = (int)MSGSZ; for (size_t i = 0; i < MSGSZ; i++) ((uint8_t *)buf)[i] = nd_u8(); return g_recv_rc; }   /* ARBITRARY request bytes */
#endif
    if (m == 1) { g_recv_rc = (int)nd_range(1, (long long)MSGSZ - 1); return g_recv_rc; }                                      /* wrong size */
    if (m == 2) { g_recv_rc = 0; return 0; }
    g_recv_rc = -1; errno = m == 3 ? EAGAIN : ECONNRESET; return -1;
}
ssize_t send(int fd, const void *buf, size_t len, int flags)
{
    (void)fd; g_send_calls++; g_send_buf = buf; g_send_len = len;
    CHECK(flags & MSG_NOSIGNAL, "C14: a vanished client cannot raise SIGPIPE in the application");
    int m = (int)nd_range(0, 2);
    if (m == 0) { g_send_rc = (int)len; return (ssize_t)len; }
    g_send_rc = -1; g_send_errno = m == 1 ? EAGAIN : EPIPE; errno = g_send_errno; return -1;
}
bool ut_is_readable(int fd) { (void)fd; return nd_bool(); }        /* real one: poll(fd, POLLIN, 0) */
int ut_accept(int fd, struct sockaddr *a, socklen_t *l, unsigned flags)
{ (void)a; (void)l; CHECK(fd == LISTEN_FD, "C14: accept on the control listen socket"); CHECK(flags & SOCK_NONBLOCK, "C05: control sessions are non-blocking (a client that does not read cannot block the application)"); if (nd_bool()) { errno = nd_bool() ? EAGAIN : EMFILE; return -1; } return g_next_cfd++; }
void ut_close(int fd) { if (g_close_calls < 4) g_closed_fd[g_close_calls] = fd; g_close_calls++; }
int unlink(const char *p) { (void)p; g_unlink_calls++; return 0; }
int getsockname(int fd, struct sockaddr *a, socklen_t *l) { (void)fd; (void)a; (void)l; return nd_bool() ? 0 : -1; }
static int g_stat_rc, g_socket_rc, g_bind_rc, g_listen_rc;
char g_bound_path[112]; bool g_bound;
int stat(const char *p, struct stat *st) { (void)p; if (g_stat_rc < 0) { errno = ENOENT; return -1; } 
#ifdef OP_CREATE_PATH
    st->st_mode = S_IFDIR;        /* the directory exists (otherwise no control interface is created, whatever the path: ctl.create) */
#else
    st->st_mode = nd_bool() ? S_IFDIR : S_IFREG;
#endif
    return 0; }
int socket(int d, int t, int p) { (void)d; (void)p; CHECK(t & SOCK_NONBLOCK, "C05: the control listen socket is non-blocking"); if (g_socket_rc < 0) { errno = EMFILE; return -1; } return LISTEN_FD; }
int bind(int fd, const struct sockaddr *a, socklen_t l) { (void)fd; (void)l; if (g_bind_rc < 0) { errno = EADDRINUSE; return -1; }
#ifdef OP_CREATE_PATH
    { const char *sp = (const char *)a + sizeof(sa_family_t);   /* sockaddr_un.sun_path (the struct is only defined inside ctl.c's includes) */
      g_bound = true; for (int i = 0; i < 108; i++) g_bound_path[i] = sp[i]; g_bound_path[108] = 0; }
#else
    (void)a;
#endif
    return 0; }
int listen(int fd, int b) { (void)fd; (void)b; if (g_listen_rc < 0) { errno = EADDRINUSE; return -1; } return 0; }
#ifdef OP_CREATE_PATH
static pid_t g_pid;
pid_t getpid(void) { return g_pid; }
#else
pid_t getpid(void) { return 4711; }
#endif
#ifdef OP_CREATE_PATH
/* the real common/common_ctl.c: XCM_CTL may be unset or name a directory of ANY length */
#include "libc_str.h"
#define snprintf m_snprintf
#define ENVMAX 120
static char g_env[ENVMAX + 1]; static bool g_env_set;
char *getenv(const char *n) { (void)n; return g_env_set ? g_env : NULL; }
#include "common_ctl.c"
#undef snprintf
#else
void ctl_get_dir(char *buf, size_t cap) { (void)cap; buf[0] = '/'; buf[1] = 'r'; buf[2] = 0; }
int ctl_derive_path(const char *d, pid_t pid, int64_t id, char *buf, size_t cap) { (void)d; (void)pid; (void)id; (void)cap; buf[0] = '/'; buf[1] = 'r'; buf[2] = '/'; buf[3] = 'c'; buf[4] = 0; return 0; }     /* the real one: ctl.create_path */
#endif
static int g_reg_add, g_reg_del, g_reg_mod_listen = -1, g_reg_mod_calls; static int g_reg_mod_client_event = -1;
#define LISTEN_REG 20
int xpoll_fd_reg_add(struct xpoll *x, int fd, int ev) { (void)x; (void)ev; g_reg_add++; return fd == LISTEN_FD ? LISTEN_REG : 20 + fd; }
void xpoll_fd_reg_mod(struct xpoll *x, int id, int ev) { (void)x; g_reg_mod_calls++; if (id == LISTEN_REG) g_reg_mod_listen = ev; else g_reg_mod_client_event = ev; }
void xpoll_fd_reg_del(struct xpoll *x, int id) { (void)x; (void)id; g_reg_del++; }
void *ut_malloc(size_t n) { void *p = malloc(n); ASSUME(p != NULL); return p; }
void *ut_calloc(size_t n) { void *p = calloc(1, n); ASSUME(p != NULL); return p; }
void ut_free(void *p) { free(p); }

#include "ctl.c"

static struct xcm_socket the_socket;
static struct ctl ctl;
static void build_ctl(void)
{
    ctl.socket = &the_socket; the_socket.xpoll = (struct xpoll *)&the_socket;
    ctl.server_fd = LISTEN_FD; ctl.server_fd_reg_id = LISTEN_REG;
    ctl.num_clients = (int)nd_range(0, MAX_CLIENTS);
    for (int i = 0; i < MAX_CLIENTS; i++) {
	ctl.clients[i].fd = CFD0 + i; ctl.clients[i].fd_reg_id = 20 + CFD0 + i;
	ctl.clients[i].is_response_pending = nd_bool();
	/* whatever an earlier request left in the per-session reply buffer */
#ifdef OP_REQ
	uint8_t *p = (uint8_t *)&ctl.clients[i].pending_response;
	for (size_t k = 0; k < MSGSZ; k++) p[k] = (uint8_t)(nd_u8() & 0x7f);   /* (never the secret: that is what the REQ obligation shows) */
#endif
    }
}
static bool contains_secret(const uint8_t *p, size_t n)
{
    for (size_t i = 0; i + 4 <= n; i++) if (p[i] == SECRET[0] && p[i + 1] == SECRET[1] && p[i + 2] == SECRET[2] && p[i + 3] == SECRET[3]) return true;
    return false;
}

#ifdef OP_REQ
/* one request on one session */
int main(void)
{
    build_ctl();
    ASSUME(ctl.num_clients >= 1);
    struct client *c = &ctl.clients[0];
    c->is_response_pending = false;
    struct ctl_proto_msg before = c->pending_response;
    errno = 0;
    int rc = client_receive(c, &ctl);
    struct ctl_proto_msg *res = &c->pending_response;
    if (c->is_response_pending) {
	CHECK(rc == 0 && g_recv_rc == (int)MSGSZ, "C14: only a request of exactly the message size is answered");
	if (g_get_calls == 1) {
	    /* a get-attr request */
	    bool ok = g_get_rc >= 0 && !g_asked_key;
	    CHECK(res->type == (ok ? ctl_proto_type_get_attr_cfm : ctl_proto_type_get_attr_rej), "C14: a get request is answered with a confirm carrying the value or a reject");
	    if (ok) {
		CHECK(res->get_attr_cfm.attr.value_len == (size_t)g_get_rc && res->get_attr_cfm.attr.value_type == g_get_type, "C14: the reply carries the length and type xcm_attr_get reported");
		for (size_t i = 0; i < CTL_ATTR_VALUE_MAX; i++) if (i < (size_t)g_get_rc) CHECK(res->get_attr_cfm.attr.any_value[i] == g_get_value[i], "C14: ... and its bytes");
	    } else if (!g_asked_key) CHECK(res->get_attr_rej.rej_errno == g_get_errno, "C14: a rejection carries the errno xcm_attr_get reported");
	    if (g_asked_key) CHECK(res->type == ctl_proto_type_get_attr_rej && res->get_attr_rej.rej_errno == EACCES, "C14: tls.key is refused with EACCES");
	    WITNESS(g_asked_key && g_get_rc > 0, "tls.key requested while set");
	} else {
	    CHECK(g_get_calls == 0, "C14: one attribute-layer call per request");
	    CHECK(res->type == ctl_proto_type_get_all_attr_cfm, "C14: a get-all request is answered with a get-all confirm, whichever request came before on the session");
	    size_t n = res->get_all_attr_cfm.attrs_len;
	    CHECK(n <= CTL_PROTO_MAX_ATTRS, "C14: the reply never claims more attributes than it can hold");
	    for (size_t k = 0; k < CTL_PROTO_MAX_ATTRS; k++) if (k < n) {
		const struct ctl_proto_attr *a = &res->get_all_attr_cfm.attrs[k];
		CHECK(a->value_len <= CTL_ATTR_VALUE_MAX, "C14: every value in the reply fits its field (large values, e.g. PEM credentials by value, do not overflow it)");
		bool term = false; for (size_t i = 0; i < XCM_ATTR_NAME_MAX; i++) if (a->name[i] == '\0') term = true;
		CHECK(term, "C14: every name in the reply is terminated inside its field");
		CHECK(strcmp(a->name, XCM_ATTR_TLS_KEY) != 0 || !term, "C14: tls.key is not listed");
	    }
	    WITNESS(g_all_n == NALL, "socket with more attributes than a reply can hold");
	    WITNESS(n >= 1 && g_all_len[0] > CTL_ATTR_VALUE_MAX, "an attribute value larger than the field");
	}
	CHECK(!contains_secret((const uint8_t *)res, MSGSZ), "C14: the value of tls.key is in no byte of what will be sent to the client");
	CHECK(g_reg_mod_client_event == EPOLLOUT, "C14: with a reply pending the session waits for writability");
    } else {
	if (g_recv_rc == (int)MSGSZ) CHECK(rc == -1, "C14: an unknown request type ends the session");
	CHECK(memcmp(&before, res, 8) == 0 || g_recv_rc == (int)MSGSZ, "C14: without a valid request the reply buffer is not touched");
	WITNESS(g_recv_rc > 0 && g_recv_rc != (int)MSGSZ && rc == -1, "request of the wrong size ends the session");
    }
    CHECK(g_send_calls == 0, "C14: nothing is sent while receiving");
    return 0;
}
#endif

#ifdef OP_PROCESS
/* one ctl_process() round: session bookkeeping */
int main(void)
{
    build_ctl();
    /* (ctl_process recurses after every removed session: with two sessions symbolic execution is out of reach - 1.3M SSA steps -
       so the two-session removal is the OP_REMOVE obligation and this one starts from 0 or 1 sessions) */
    ASSUME(ctl.num_clients == 0);    /* see OP_CLIENT / OP_REMOVE / OP_ACCEPT for rounds with sessions */
    int n0 = ctl.num_clients;
    errno = (int)nd_range(0, 200); int e0 = errno;
    ctl_process(&ctl);
    CHECK(errno == e0, "C14: control processing never changes errno seen by the data path");
    CHECK(ctl.num_clients >= 0 && ctl.num_clients <= MAX_CLIENTS, "C14: at most two sessions, whatever clients do");
    CHECK(ctl.num_clients <= n0 + 1, "C14: at most one session accepted per round");
    if (n0 == MAX_CLIENTS && ctl.num_clients == MAX_CLIENTS) CHECK(g_next_cfd == CFD0 + 2 || g_close_calls > 0, "C14: no accept beyond the session limit");
    if (ctl.num_clients == MAX_CLIENTS && n0 < MAX_CLIENTS) CHECK(g_reg_mod_listen == 0, "C14,C16: with both sessions in use the listen socket no longer wakes the application");
    if (ctl.num_clients < MAX_CLIENTS && n0 == MAX_CLIENTS) CHECK(g_reg_mod_listen == EPOLLIN, "C14: a freed session slot makes the listen socket wake the application again");
    for (int k = 0; k < 4; k++) if (k < g_close_calls) CHECK(g_closed_fd[k] >= CFD0, "C08,C14: only session descriptors are closed, never the listen socket or anything else");
    CHECK(g_reg_del == g_close_calls, "C08: a removed session loses its registration and its descriptor together");
    if (g_send_calls > 0) CHECK(g_send_len == MSGSZ, "C14: a reply is one whole protocol message");
    WITNESS(n0 == 0 && ctl.num_clients == 1, "first session accepted through ctl_process");
    return 0;
}
#endif

#ifdef OP_ACCEPT
/* accept_client with 0 or 1 sessions; the slot the new session gets holds whatever an earlier session left there */
int main(void)
{
    build_ctl();
    ASSUME(ctl.num_clients <= 1);
    int n0 = ctl.num_clients;
    accept_client(&ctl);
    CHECK(ctl.num_clients == n0 || ctl.num_clients == n0 + 1, "C14: at most one session accepted");
    if (ctl.num_clients == n0 + 1) {
	struct client *c = &ctl.clients[n0];
	CHECK(c->fd >= CFD0 + 2 && g_reg_add == 1, "C14: the new session has its own descriptor, registered");
	CHECK(!c->is_response_pending, "C14: a new session starts with no reply pending - nothing of an earlier session's reply can reach it");
	if (ctl.num_clients == MAX_CLIENTS) CHECK(g_reg_mod_listen == 0, "C14,C16: with both sessions in use the listen socket no longer wakes the application");
	WITNESS(n0 == 1, "second session accepted");
    }
    CHECK(g_close_calls == 0, "C08: accepting closes nothing");
    return 0;
}
#endif

#ifdef OP_CLIENT
/* process_client on one session: reply pending -> send; otherwise receive (request contents: OP_REQ) */
int main(void)
{
    build_ctl();
    ASSUME(ctl.num_clients >= 1);
    struct client *c = &ctl.clients[0];
    bool pending = c->is_response_pending;
    int rc = process_client(c, &ctl);
    if (pending) {
	CHECK(g_send_calls == 1 && g_recv_calls == 0 && g_send_buf == &c->pending_response && g_send_len == MSGSZ, "C14: a pending reply is sent, whole, before anything else is read from that session");
	if (g_send_rc >= 0) CHECK(rc == 0 && !c->is_response_pending && g_reg_mod_client_event == EPOLLIN, "C14: once sent, the session waits for the next request");
	else if (g_send_errno == EAGAIN) CHECK(rc == 0 && c->is_response_pending, "C14: a client that does not read keeps its reply pending; the application is not blocked");
	else CHECK(rc == -1, "C14: a broken session is ended");
	WITNESS(g_send_rc < 0 && g_send_errno == EAGAIN, "client not reading");
    } else CHECK(g_send_calls == 0, "C14: nothing is sent without a pending reply");
    CHECK(g_close_calls == 0, "C08: the session is closed by remove_client only");
    return 0;
}
#endif

#ifdef OP_REMOVE
/* removal of one of 1..2 sessions (what ctl_process does with a session that failed) */
int main(void)
{
    build_ctl();
    ASSUME(ctl.num_clients >= 1);
    int n0 = ctl.num_clients; int idx = (int)nd_range(0, n0 - 1);
    int fd_removed = ctl.clients[idx].fd, fd_other = ctl.clients[1 - idx].fd; bool other_pending = ctl.clients[1 - idx].is_response_pending;
    remove_client(&ctl, idx, true);
    CHECK(ctl.num_clients == n0 - 1, "C14: one session less");
    CHECK(g_close_calls == 1 && g_closed_fd[0] == fd_removed && g_reg_del == 1, "C08: exactly the removed session's descriptor is closed and its registration deleted");
    if (n0 == 2) {
	CHECK(ctl.clients[0].fd == fd_other && ctl.clients[0].is_response_pending == other_pending, "C14: the surviving session keeps its descriptor and its pending reply");
	CHECK(g_reg_mod_listen == EPOLLIN, "C14: a freed session slot makes the listen socket wake the application again");
    }
    WITNESS(n0 == 2 && idx == 0, "first of two sessions removed");
    return 0;
}
#endif

#ifdef OP_DESTROY
int main(void)
{
    struct ctl *c = malloc(sizeof(struct ctl)); ASSUME(c != NULL);
    build_ctl(); *c = ctl;
    bool owner = nd_bool(); int n0 = c->num_clients;
    errno = 33;
    ctl_destroy(c, owner);
    CHECK(errno == 33, "C14: errno preserved");
    CHECK(g_close_calls == n0 + 1, "C08: every session descriptor and the listen socket are closed exactly once");
    if (owner) { CHECK(g_reg_del == n0 + 1, "C08: the owner removes all registrations"); }
    else {
	CHECK(g_reg_del == 0, "C08: xcm_cleanup in a forked child leaves the epoll registrations it shares with the owner alone");
	CHECK(g_unlink_calls == 0, "C08: xcm_cleanup leaves the owner's control socket file in place");
    }
    ctl_destroy(NULL, true);
    WITNESS(!owner && n0 == 2, "cleanup with two open sessions");
    WITNESS(owner && g_unlink_calls == 1, "owner close unlinks the control file");
    return 0;
}
#endif

#ifdef OP_CREATE
int main(void)
{
    g_stat_rc = nd_bool() ? 0 : -1; g_socket_rc = nd_bool() ? 0 : -1; g_bind_rc = nd_bool() ? 0 : -1; g_listen_rc = nd_bool() ? 0 : -1;
    the_socket.xpoll = (struct xpoll *)&the_socket;
    errno = 44;
    struct ctl *c = ctl_create(&the_socket);
    CHECK(errno == 44, "C14: a failing control interface is silent (errno untouched, the socket works without it)");
    if (c == NULL) {
	CHECK(g_reg_add == 0, "C08: nothing registered on failure");
	CHECK(g_close_calls == ((g_stat_rc == 0 && g_socket_rc == 0 && (g_bind_rc < 0 || g_listen_rc < 0)) ? 1 : 0) || g_close_calls <= 1, "C08: the listen socket is closed again on failure");
	WITNESS(g_stat_rc == 0 && g_socket_rc == 0 && g_bind_rc == 0 && g_listen_rc < 0, "listen() failed");
    } else {
	CHECK(c->server_fd == LISTEN_FD && c->num_clients == 0 && g_reg_add == 1, "C14: created with no sessions, listen socket registered");
	ctl_destroy(c, true);
	CHECK(g_close_calls == 1, "C08: closed once");
    }
    return 0;
}
#endif

#ifdef OP_CREATE_PATH
/* C08/C14: whatever the XCM_CTL environment variable holds, creating a socket never terminates the process and never binds the
 * control socket to a truncated (i.e. some other) path */
int main(void)
{
    /* one concrete directory-name length per obligation (a symbolic 120-character string through the snprintf model does not
       finish in 600 s); pid and socket id stay symbolic, so each length still covers path lengths n+8 .. n+16 */
#if ENVLEN < 0
    g_env_set = false; size_t n = 0;
#else
    g_env_set = true; size_t n = ENVLEN;
#endif
    for (size_t i = 0; i < ENVMAX; i++) g_env[i] = i < n ? 'd' : 0;
    g_env[ENVMAX] = 0;
    g_pid = (pid_t)nd_range(1, 99999); the_socket.sock_id = (int64_t)nd_range(0, 99999);
    g_stat_rc = 0; g_socket_rc = 0; g_bind_rc = 0; g_listen_rc = 0;
    the_socket.xpoll = (struct xpoll *)&the_socket;
    struct ctl *c = ctl_create(&the_socket);          /* an abort() here is the asserting stub */
    char want[ENVMAX + 32];
    int need = m_snprintf(want, sizeof(want), "%s/ctl-%d-%ld", (g_env_set && n < 108) ? g_env : CTL_PROTO_DEFAULT_DIR, (int)g_pid, (long)the_socket.sock_id);
    if (c != NULL) {
	CHECK(g_bound && need < 108, "C14: the control socket is created only if its whole path fits sockaddr_un");
	CHECK(strcmp(g_bound_path, want) == 0, "C14: the control socket is bound to <dir>/ctl-<pid>-<id>, complete - never to a truncated name (which a later close would unlink)");
    } else
	CHECK(need >= 108, "C14: a control path that fits is used");
#if ENVLEN >= 92 && ENVLEN <= 99
    WITNESS(c != NULL && need == 107, "path exactly fills sun_path");
    WITNESS(c == NULL, "control interface not created: path too long");
#elif ENVLEN >= 100 && ENVLEN < 108
    WITNESS(c == NULL, "control interface not created: path too long");
#else
    WITNESS(c != NULL, "created");
#endif
    return 0;
}
#endif
