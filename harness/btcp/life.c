/* libxcm/tp/tcp/xcm_tp_btcp.c (+ tcp_attr.c, dns_attr.c, real): life cycle of a
 * BTCP socket - btcp_init, then btcp_connect | btcp_server | btcp_accept with
 * every resource-creating step failing at the solver's choice (socket, setsockopt,
 * getsockname, bind, listen, accept4, tconnect_create, xcm_dns_resolve, the first
 * establishment step), then btcp_close | btcp_cleanup - over a KERNEL-FD ghost
 * table, counted xpoll registrations and counted tconnect / resolver objects.
 * Serves C08 C05.     -DOP_LIFE_CONNECT | OP_LIFE_SERVER | OP_LIFE_ACCEPT
 */
#include "stubs.h"
#include <errno.h>
#include <string.h>
#include <sys/epoll.h>
#include <sys/socket.h>
#include <netinet/in.h>
#include <netinet/tcp.h>

/* ---- KERNEL-FD ghost ---- */
#define NFD 4
#define FD0 10
#define SERVER_FD 8                     /* a listening descriptor owned by ANOTHER socket (accept harness) */
static struct { bool open, nonblock, bound, listening, from_accept; int family; } F[NFD]; static int g_nfds;
static int g_stray_close;               /* close of a descriptor this socket did not create */
static int new_fd(void) { CHECK(g_nfds < NFD, "harness: fd table"); int i = g_nfds++; F[i].open = true; return FD0 + i; }
static bool mine(int fd) { return fd >= FD0 && fd < FD0 + g_nfds; }
int socket(int dom, int type, int proto)
{
    CHECK((type & SOCK_NONBLOCK) != 0, "C05: kernel sockets are created non-blocking");
    CHECK((type & ~(SOCK_NONBLOCK | SOCK_CLOEXEC)) == SOCK_STREAM && proto == IPPROTO_TCP, "harness: TCP stream socket");
    if (nd_bool()) { errno = nd_bool() ? EMFILE : ENFILE; return -1; }
    int fd = new_fd(); F[fd - FD0].nonblock = true; F[fd - FD0].family = dom; return fd;
}
int ut_accept(int s, struct sockaddr *a, socklen_t *l, unsigned f)
{
    (void)a; (void)l;
    CHECK(s == SERVER_FD, "C08: accept on the server socket's own listening descriptor");
    CHECK((f & SOCK_NONBLOCK) != 0, "C05: accepted descriptors are made non-blocking atomically (accept4 SOCK_NONBLOCK)");
    int m = (int)nd_range(0, 2);
    if (m == 1) { errno = EAGAIN; return -1; }
    if (m == 2) { errno = nd_bool() ? EMFILE : ECONNABORTED; return -1; }
    int fd = new_fd(); F[fd - FD0].nonblock = true; F[fd - FD0].from_accept = true; F[fd - FD0].family = AF_INET; return fd;
}
void ut_close(int fd) { if (!mine(fd)) { g_stray_close++; CHECK(0, "C08: the library never closes a descriptor this socket did not create"); return; } CHECK(F[fd - FD0].open, "C08: a descriptor is closed exactly once"); F[fd - FD0].open = false; }
void ut_close_if_valid(int fd) { if (fd >= 0) ut_close(fd); }
int setsockopt(int fd, int level, int optname, const void *v, socklen_t l)
{ (void)level; (void)optname; (void)v; (void)l; CHECK(mine(fd) && F[fd - FD0].open, "C08: setsockopt() only on the socket's own open descriptor"); if (nd_bool()) { errno = nd_bool() ? EINVAL : ENOPROTOOPT; return -1; } return 0; }
int getsockname(int fd, struct sockaddr *a, socklen_t *l)
{ (void)l; CHECK(mine(fd) && F[fd - FD0].open, "C08: getsockname() only on the socket's own open descriptor"); if (nd_bool()) { errno = ENOBUFS; return -1; } ((struct sockaddr_storage *)a)->ss_family = (sa_family_t)F[fd - FD0].family; return 0; }
int bind(int fd, const struct sockaddr *a, socklen_t l)
{ (void)a; (void)l; CHECK(mine(fd) && F[fd - FD0].open && !F[fd - FD0].bound, "C08: bind() once on the socket's own descriptor"); if (nd_bool()) { errno = nd_bool() ? EADDRINUSE : EADDRNOTAVAIL; return -1; } F[fd - FD0].bound = true; return 0; }
int listen(int fd, int backlog)
{ (void)backlog; CHECK(mine(fd) && F[fd - FD0].bound && !F[fd - FD0].listening, "C08: listen() on the bound descriptor"); if (nd_bool()) { errno = EADDRINUSE; return -1; } F[fd - FD0].listening = true; return 0; }

/* ---- counted XPOLL registrations ---- */
static int g_fd_regs, g_fd_reg_fd = -1, g_bells, g_fd_dels, g_bell_dels;
int xpoll_get_fd(struct xpoll *x) { (void)x; return 9; }
int xpoll_fd_reg_add(struct xpoll *x, int fd, int ev) { (void)x; (void)ev; CHECK(mine(fd) && F[fd - FD0].open && g_fd_regs == 0, "C08: only the socket's own open descriptor is registered, once"); g_fd_regs++; g_fd_reg_fd = fd; return 3; }
void xpoll_fd_reg_mod(struct xpoll *x, int id, int ev) { (void)x; (void)ev; CHECK(id == 3 && g_fd_regs == 1, "C04: a live registration is modified"); }
void xpoll_fd_reg_del(struct xpoll *x, int id) { (void)x; CHECK(id == 3 && g_fd_regs == 1, "C08: a live registration is deleted once"); g_fd_regs--; g_fd_dels++; }
void xpoll_fd_reg_del_if_valid(struct xpoll *x, int id) { if (id >= 0) xpoll_fd_reg_del(x, id); }
int xpoll_bell_reg_add(struct xpoll *x, bool r) { (void)x; (void)r; CHECK(g_bells == 0, "harness: one bell"); g_bells++; return 4; }
void xpoll_bell_reg_mod(struct xpoll *x, int id, bool r) { (void)x; (void)r; CHECK(id == 4 && g_bells == 1, "C04: a live bell is modified"); }
void xpoll_bell_reg_del(struct xpoll *x, int id) { (void)x; CHECK(id == 4 && g_bells == 1, "C08: the bell registration is deleted once"); g_bells--; g_bell_dels++; }
void xpoll_bell_reg_del_if_valid(struct xpoll *x, int id) { if (id >= 0) xpoll_bell_reg_del(x, id); }

/* ---- counted DNS / TCONNECT objects ---- */
#include "tconnect.h"
#include "xcm_dns.h"
static struct { int d; } tc_tok, q_tok;
static int g_tc_live, g_q_live; static bool g_tc_owner_seen, g_q_owner_seen, g_tc_owner, g_q_owner;
static bool g_q_completed; static int g_q_rc; static int g_tc_connect_rc, g_tc_get_rc, g_tc_get_errno;
struct tconnect *tconnect_create(enum tconnect_algorithm a, struct xpoll *x, void *l) { (void)x; (void)l; CHECK(a != tconnect_algorithm_none, "C13: an algorithm is chosen before connecting"); if (nd_bool()) { errno = EMFILE; return NULL; } g_tc_live++; return (struct tconnect *)&tc_tok; }
void tconnect_destroy(struct tconnect *t, bool owner) { if (t == NULL) return; CHECK(g_tc_live == 1, "C08: tconnect destroyed once"); g_tc_live--; g_tc_owner_seen = true; g_tc_owner = owner; }
int tconnect_connect(struct tconnect *t, const struct xcm_addr_ip *lip, uint16_t lp, int64_t sc, double tmo, const struct tcp_opts *o, const struct xcm_addr_ip *r, size_t n, uint16_t rp)
{ (void)t; (void)lip; (void)lp; (void)sc; (void)o; (void)r; (void)n; (void)rp; CHECK(tmo > 0, "C13: a positive connect timeout is in force"); if (g_tc_connect_rc < 0) { errno = ENETUNREACH; return -1; } return 0; }
int tconnect_get_connected_fd(struct tconnect *t, int *fd, int64_t *scope, struct tcp_opts *opts)
{ (void)t; (void)scope; (void)opts; if (g_tc_get_rc < 0) { errno = g_tc_get_errno; return -1; } *fd = new_fd(); F[*fd - FD0].nonblock = true; F[*fd - FD0].family = AF_INET; return 0; }     /* ownership of the descriptor passes to the caller */
const char *tconnect_algorithm_str(enum tconnect_algorithm a) { (void)a; return "single"; }
enum tconnect_algorithm tconnect_algorithm_enum(const char *s) { (void)s; return tconnect_algorithm_single; }
struct xcm_dns_query *xcm_dns_resolve(const char *n, struct xpoll *x, double t, void *l) { (void)n; (void)x; (void)t; (void)l; if (nd_bool()) { errno = ENOMEM; return NULL; } g_q_live++; return (struct xcm_dns_query *)&q_tok; }
void xcm_dns_query_destroy(struct xcm_dns_query *q, bool owner) { if (q == NULL) return; CHECK(g_q_live == 1, "C08: resolver query destroyed once"); g_q_live--; g_q_owner_seen = true; g_q_owner = owner; }
bool xcm_dns_query_completed(struct xcm_dns_query *q) { (void)q; return g_q_completed; }
void xcm_dns_query_process(struct xcm_dns_query *q) { (void)q; }
int xcm_dns_query_result(struct xcm_dns_query *q, struct xcm_addr_ip *ips, int cap) { (void)q; (void)cap; if (!g_q_completed) { errno = EAGAIN; return -1; } if (g_q_rc < 0) { errno = ENOENT; return -1; } ips[0].family = AF_INET; return 1; }
bool xcm_dns_supports_timeout_param(void) { return true; }
static int g_sync_name_waits;
int xcm_dns_resolve_sync(struct xcm_addr_host *h, void *l) { (void)l; if (h->type == xcm_addr_type_ip) return 0; g_sync_name_waits++; if (nd_bool()) { errno = ENOENT; return -1; } h->type = xcm_addr_type_ip; h->ip.family = AF_INET; return 0; }
static int64_t g_conf_scope = -1; static int g_bind_family, g_sockaddr_calls; static int64_t g_bind_scope;
void tp_ip_to_sockaddr(const struct xcm_addr_ip *ip, uint16_t port, int64_t scope, struct sockaddr *sa)
{
    (void)port; (void)sa; g_sockaddr_calls++; g_bind_family = ip->family; g_bind_scope = scope;
    if (ip->family == AF_INET6) CHECK(scope == (g_conf_scope >= 0 ? g_conf_scope : 0), "C11: an IPv6 server binds with the configured ipv6.scope (0 when none was given)");
    else CHECK(g_conf_scope < 0, "C11: ipv6.scope on an IPv4 address is refused, not ignored");
}
void tp_sockaddr_to_btcp_addr(struct sockaddr_storage *sa, char *a, size_t cap) { (void)sa; if (cap > 2) { a[0] = 'b'; a[1] = 0; } }
static bool g_remote_is_name;
int xcm_addr_parse_btcp(const char *a, struct xcm_addr_host *h, uint16_t *p)
{ (void)a; if (nd_bool()) { errno = EINVAL; return -1; } if (g_remote_is_name) { h->type = xcm_addr_type_name; h->name[0] = 'n'; h->name[1] = 0; } else { h->type = xcm_addr_type_ip; h->ip.family = nd_bool() ? AF_INET : AF_INET6; } *p = nd_u16(); return 0; }     /* host is a union */

#include "dns_attr.c"
#include "tcp_attr.c"
#include "xcm_tp_btcp.c"
void xcm_tp_register(const char *n, const struct xcm_tp_ops *o) { (void)n; (void)o; }

static struct { struct xcm_socket s; struct btcp_socket priv; } sock, srv;
#define S (&sock.s)
#define B (&sock.priv)
static struct xcm_tp_proto proto = { "btcp", &btcp_ops };

static void all_released(bool owner)
{
    for (int i = 0; i < NFD; i++) if (i < g_nfds) CHECK(!F[i].open, "C08: every descriptor the socket created or was handed (socket, accept4, tconnect) is closed when the socket is gone - on every failure path too");
    CHECK(g_tc_live == 0 && g_q_live == 0, "C08: the connect machinery and the resolver query are released");
    if (owner) CHECK(g_fd_regs == 0 && g_bells == 0, "C08: the owner's epoll registrations (descriptor and bell) are deleted");
    else CHECK(g_fd_dels == 0 && g_bell_dels == 0 && (!g_tc_owner_seen || !g_tc_owner) && (!g_q_owner_seen || !g_q_owner), "C08: cleanup in a forked child frees process-local resources only: the epoll set shared with the owner is not altered");
    CHECK(g_stray_close == 0, "C08: no descriptor of another socket is closed");
}

int main(void)
{
    S->proto = &proto; S->xpoll = (struct xpoll *)&sock;
    errno = 0;
#ifdef OP_LIFE_SERVER
    S->type = xcm_socket_type_server;
    ASSUME(btcp_init(S, NULL) == 0);
    if (nd_bool()) B->scope = (int64_t)nd_range(0, 5);            /* ipv6.scope given at creation */
    g_conf_scope = B->scope;
    g_remote_is_name = nd_bool();
    int rc = btcp_server(S, "btcp:x:1");
    if (rc < 0) { all_released(true); CHECK(errno != 0, "C08: failure is reported with a reason");
	WITNESS(g_nfds == 1 && F[0].bound, "listen failed after bind: descriptor closed");
	WITNESS(g_nfds == 0, "no descriptor could be created"); }
    else {
	CHECK(g_nfds == 1 && F[0].open && F[0].listening && g_fd_regs == 1 && g_fd_reg_fd == FD0, "C08: a created server holds exactly one listening descriptor, registered once");
	CHECK(g_sockaddr_calls == 1, "harness: one bind address");
	if (g_bind_family == AF_INET6) CHECK(B->scope == (g_conf_scope >= 0 ? g_conf_scope : 0), "C11: ipv6.scope of an IPv6 server reports the scope in force (the configured one, else 0)");
	else CHECK(B->scope == -1, "C11: an IPv4 server has no ipv6.scope");
	WITNESS(g_bind_family == AF_INET6 && g_conf_scope > 0, "IPv6 server with a configured scope");
	bool owner = nd_bool();
	g_tc_owner_seen = g_q_owner_seen = false;            /* what was released as owner during establishment is not cleanup's business */
	if (owner) btcp_close(S); else btcp_cleanup(S);
	all_released(owner);
	WITNESS(!owner, "server cleaned up in a forked child");
    }
#elif defined(OP_LIFE_ACCEPT)
    srv.s.proto = &proto; srv.s.type = xcm_socket_type_server; srv.s.xpoll = (struct xpoll *)&srv; srv.priv.fd = SERVER_FD; srv.priv.fd_reg_id = 7; srv.priv.scope = -1; srv.priv.server.created = true;
    S->type = xcm_socket_type_conn;
    ASSUME(btcp_init(S, &srv.s) == 0);
    /* attributes the application may have passed to xcm_accept_a() */
    if (nd_bool()) { B->laddr[0] = 'l'; B->laddr[1] = 0; }
    if (nd_bool()) B->conn.dns_algorithm = tconnect_algorithm_single;
    if (nd_bool()) B->conn.tcp_connect_timeout = 1.0;
    int rc = btcp_accept(S, &srv.s);
    CHECK(srv.priv.fd == SERVER_FD && srv.priv.fd_reg_id == 7, "C08: accepting (or failing to) leaves the server socket alone");
    if (rc < 0) { all_released(true); CHECK(errno != 0, "C08: failure is reported with a reason");
	WITNESS(g_nfds == 1, "options could not be applied to the accepted descriptor: it is closed");
	WITNESS(errno == EAGAIN, "nothing to accept"); }
    else {
	CHECK(g_nfds == 1 && F[0].open && F[0].nonblock && g_fd_regs == 1 && B->conn.state == conn_state_ready, "C08: an accepted connection holds exactly one non-blocking descriptor, registered once");
	bool owner = nd_bool();
	g_tc_owner_seen = g_q_owner_seen = false;            /* what was released as owner during establishment is not cleanup's business */
	if (owner) btcp_close(S); else btcp_cleanup(S);
	all_released(owner);
	WITNESS(!owner, "accepted connection cleaned up in a forked child");
    }
#else
    S->type = xcm_socket_type_conn;
    ASSUME(btcp_init(S, NULL) == 0);
    g_remote_is_name = nd_bool();
    g_q_completed = nd_bool(); g_q_rc = nd_bool() ? 1 : -1; g_tc_connect_rc = nd_bool() ? 0 : -1; g_tc_get_rc = nd_bool() ? 0 : -1; g_tc_get_errno = nd_bool() ? EAGAIN : ECONNREFUSED;
    int rc = btcp_connect(S, "btcp:x:1");
    CHECK(g_sync_name_waits == 0, "C05: connecting to a named host never resolves synchronously");
    if (rc < 0) { all_released(true); CHECK(errno != 0, "C08: failure is reported with a reason");
	WITNESS(g_tc_owner_seen && !g_q_owner_seen, "failed after the connect machinery existed (numeric address)");
	WITNESS(g_q_owner_seen, "failed after the resolver query existed"); }
    else {
	CHECK(B->conn.state == conn_state_resolving || B->conn.state == conn_state_connecting || B->conn.state == conn_state_ready, "C13: a started connection is resolving, connecting or ready");
	if (B->conn.state == conn_state_ready) CHECK(g_nfds == 1 && F[0].open && g_fd_regs == 1 && g_tc_live == 0 && g_q_live == 0, "C08: an established connection holds its descriptor only");
	enum conn_state st = B->conn.state;
	bool owner = nd_bool();
	g_tc_owner_seen = g_q_owner_seen = false;            /* what was released as owner during establishment is not cleanup's business */
	if (owner) btcp_close(S); else btcp_cleanup(S);
	all_released(owner);
	WITNESS(!owner && st == conn_state_resolving, "closed in a forked child while resolving");
	WITNESS(st == conn_state_ready, "connected at once");
    }
#endif
    return 0;
}
