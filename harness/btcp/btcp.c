/* libxcm/tp/tcp/xcm_tp_btcp.c (+ tcp_attr.c, real): one inductive step of
 * send / receive / finish / update / attribute access from an arbitrary valid
 * connection state, over KERNEL-STREAM (send/recv/setsockopt stubs), XPOLL,
 * TCONNECT and DNS contract mocks.  Serves C02 C04 C05 C06 C10 C11 C16 C17.
 *
 *  -DOP_SEND | OP_RECV | OP_FINISH | OP_UPDATE | OP_SERVER_UPDATE | OP_GETTER -DGETTER=fn -DGSIZE=n
 *  | OP_SETOPT | OP_ESTABLISH | OP_ONCE
 */
#include "stubs.h"
#include <errno.h>
#include <string.h>
#include <sys/epoll.h>
#include <sys/socket.h>
#include <netinet/tcp.h>

/* ---- ghost: kernel -------------------------------------------------------- */
#define DATA_FD 5
#define NEW_FD 6          /* fd handed over by tconnect */
static int g_send_calls, g_recv_calls;
static int g_sys_errno;                 /* errno of the failing kernel call */
static int g_sys_rc;
static const void *g_app_buf; static size_t g_app_len;
/* ghost kernel option table K[fd][opt] for DATA_FD and NEW_FD */
struct kopts { bool set_keepalive, set_idle, set_intvl, set_cnt, set_ut; int keepalive, idle, intvl, cnt, user_timeout_ms; };
static struct kopts K[2];
static bool g_setsockopt_may_fail = true;
static int g_setsockopt_failed;
#define KIDX(fd) ((fd) == DATA_FD ? 0 : 1)

static const int hard_errnos[] = { EPIPE, ECONNRESET, ETIMEDOUT, EHOSTUNREACH, ENETUNREACH, ECONNREFUSED };
static int nd_hard_errno(void) { return hard_errnos[nd_range(0, 5)]; }

ssize_t send(int fd, const void *buf, size_t len, int flags)
{
    g_send_calls++;
    CHECK(fd == DATA_FD, "C02: send() on the connection's own descriptor");
    CHECK(buf == g_app_buf && len == g_app_len, "C02: exactly one send() with the caller's buffer and length");
    CHECK((flags & MSG_NOSIGNAL) != 0 && (flags & (MSG_OOB | MSG_MORE)) == 0, "C08: send() with MSG_NOSIGNAL (no SIGPIPE), as ordinary stream data");
    int mode = (int)nd_range(0, 2);
    if (mode == 0 || len == 0) { g_sys_rc = len ? (int)nd_range(1, (long long)(len < 0x7fffffff ? len : 0x7fffffff)) : 0; return g_sys_rc; }
    g_sys_rc = -1;
    g_sys_errno = mode == 1 ? EAGAIN : nd_hard_errno();
    errno = g_sys_errno;
    return -1;
}
ssize_t recv(int fd, void *buf, size_t len, int flags)
{
    g_recv_calls++;
    CHECK(fd == DATA_FD, "C02: recv() on the connection's own descriptor");
    CHECK(buf == g_app_buf && len == g_app_len && (flags & (MSG_PEEK | MSG_TRUNC | MSG_OOB | MSG_WAITALL)) == 0, "C02: exactly one consuming recv() with the caller's buffer and capacity");
    int mode = (int)nd_range(0, 3);
    if (mode == 0) { g_sys_rc = len ? (int)nd_range(1, (long long)(len < 0x7fffffff ? len : 0x7fffffff)) : 0; return g_sys_rc; }
    if (mode == 1) { g_sys_rc = 0; return 0; }
    g_sys_rc = -1;
    g_sys_errno = mode == 2 ? EAGAIN : nd_hard_errno();
    errno = g_sys_errno;
    return -1;
}
int setsockopt(int fd, int level, int optname, const void *optval, socklen_t optlen)
{
    CHECK(fd == DATA_FD || fd == NEW_FD, "C08: setsockopt() only on the connection's own descriptor");
    CHECK(optlen == sizeof(int), "harness: int-sized socket options");
    if (g_setsockopt_may_fail && nd_bool()) { g_setsockopt_failed++; errno = nd_bool() ? EINVAL : ENOPROTOOPT; return -1; }
    int v = *(const int *)optval; struct kopts *k = &K[KIDX(fd)];
    if (level == SOL_SOCKET && optname == SO_KEEPALIVE) { k->keepalive = v; k->set_keepalive = true; }
    else if (level == SOL_TCP && optname == TCP_KEEPIDLE) { k->idle = v; k->set_idle = true; }
    else if (level == SOL_TCP && optname == TCP_KEEPINTVL) { k->intvl = v; k->set_intvl = true; }
    else if (level == SOL_TCP && optname == TCP_KEEPCNT) { k->cnt = v; k->set_cnt = true; }
    else if (level == SOL_TCP && optname == TCP_USER_TIMEOUT) { k->user_timeout_ms = v; k->set_ut = true; }
    return 0;
}
int getsockname(int fd, struct sockaddr *addr, socklen_t *len)
{ (void)fd; if (nd_bool()) { errno = EBADF; return -1; } ((struct sockaddr_storage *)addr)->ss_family = nd_bool() ? AF_INET : AF_INET6; (void)len; return 0; }
int getpeername(int fd, struct sockaddr *addr, socklen_t *len)
{ (void)fd; if (nd_bool()) { errno = ENOTCONN; return -1; } ((struct sockaddr_storage *)addr)->ss_family = nd_bool() ? AF_INET : AF_INET6; (void)len; return 0; }
int getsockopt(int fd, int level, int optname, void *optval, socklen_t *optlen)
{
    (void)fd; (void)level; (void)optname;
    if (nd_bool()) { errno = EBADF; return -1; }
    /* the kernel fills at most *optlen bytes and reports how many */
    socklen_t n = (socklen_t)nd_range(0, *optlen);
    (void)optval;   /* content: whatever the (uninitialised, hence arbitrary) buffer holds */
    *optlen = n;
    return 0;
}
static int g_closed_fd = -1; static int g_close_calls;
void ut_close(int fd) { g_close_calls++; g_closed_fd = fd; }
void ut_close_if_valid(int fd) { if (fd >= 0) ut_close(fd); }
int ut_accept(int s, struct sockaddr *a, socklen_t *l, unsigned f) { (void)s; (void)a; (void)l; (void)f; errno = EAGAIN; return -1; }

/* ---- ghost: XPOLL ----------------------------------------------------------- */
#define FD_REG 3
#define BELL_REG 4
static int g_fd_mod_calls, g_fd_mod_event = -1, g_bell_mod_calls, g_bell_ringing = -1, g_fd_add_calls, g_fd_add_fd = -1, g_fd_add_event = -1;
static int g_fd_del_calls, g_bell_del_calls;
int xpoll_get_fd(struct xpoll *x) { (void)x; return 9; }
int xpoll_fd_reg_add(struct xpoll *x, int fd, int event) { (void)x; g_fd_add_calls++; g_fd_add_fd = fd; g_fd_add_event = event; return FD_REG; }
void xpoll_fd_reg_mod(struct xpoll *x, int reg_id, int event)
{ (void)x; CHECK(reg_id == FD_REG, "C04: fd registration modified through its own registration id"); g_fd_mod_calls++; g_fd_mod_event = event; }
void xpoll_fd_reg_del(struct xpoll *x, int reg_id) { (void)x; (void)reg_id; g_fd_del_calls++; }
void xpoll_fd_reg_del_if_valid(struct xpoll *x, int reg_id) { (void)x; if (reg_id >= 0) g_fd_del_calls++; }
int xpoll_bell_reg_add(struct xpoll *x, bool ringing) { (void)x; (void)ringing; return BELL_REG; }
void xpoll_bell_reg_mod(struct xpoll *x, int reg_id, bool ringing)
{ (void)x; CHECK(reg_id == BELL_REG, "C04: bell modified through its own registration id"); g_bell_mod_calls++; g_bell_ringing = ringing; }
void xpoll_bell_reg_del(struct xpoll *x, int reg_id) { (void)x; (void)reg_id; g_bell_del_calls++; }
void xpoll_bell_reg_del_if_valid(struct xpoll *x, int reg_id) { (void)x; if (reg_id >= 0) g_bell_del_calls++; }

/* ---- ghost: DNS and TCONNECT contracts ------------------------------------ */
#include "tconnect.h"
#include "xcm_dns.h"
static struct { int dummy; } tconnect_token, query_token;
static bool g_query_completed, g_query_processed, g_query_destroyed, g_tconnect_destroyed;
static int g_query_rc; static int g_query_errno;
static int g_tc_connect_calls, g_tc_connect_rc, g_tc_connect_errno, g_tc_num_ips;
static const struct tcp_opts *g_tc_opts_arg; static double g_tc_timeout_arg; static uint16_t g_tc_port_arg;
static int g_tc_get_rc, g_tc_get_errno;
static struct tcp_opts g_tc_snapshot;      /* options tconnect applied to the fd it hands over */
bool xcm_dns_query_completed(struct xcm_dns_query *q) { CHECK((void *)q == (void *)&query_token, "C13: the connection's own query"); return g_query_completed; }
void xcm_dns_query_process(struct xcm_dns_query *q) { CHECK((void *)q == (void *)&query_token, "C13: the connection's own query"); g_query_processed = true; }
int xcm_dns_query_result(struct xcm_dns_query *q, struct xcm_addr_ip *ips, int capacity)
{
    CHECK((void *)q == (void *)&query_token && capacity == XCM_DNS_MAX_RESULT_SIZE, "C13: result asked of the connection's own query with the full table");
    if (!g_query_completed) { errno = EAGAIN; return -1; }
    if (g_query_rc < 0) { errno = g_query_errno; return -1; }
    for (int i = 0; i < 4; i++) if (i < g_query_rc) ips[i].family = nd_bool() ? AF_INET : AF_INET6;
    return g_query_rc;
}
void xcm_dns_query_destroy(struct xcm_dns_query *q, bool owner) { (void)owner; if (q != NULL) g_query_destroyed = true; }
/* xcm_dns_resolve_sync: returns at once for an IP address; for a NAME it sits in poll(fd, 1, -1) until the resolver answers or
 * gives up (SYNC_DNS_TIMEOUT = 10 s) - see dns/dns_h.c.  Only a blocking socket may get there. */
static bool g_socket_blocking, g_laddr_failed; static int g_sync_waits;
int xcm_dns_resolve_sync(struct xcm_addr_host *host, void *log_ref)
{
    (void)log_ref;
    if (host->type == xcm_addr_type_ip) return 0;
    g_sync_waits++;
    CHECK(g_socket_blocking, "C05: establishing a connection on a non-blocking socket never waits for a name resolution (xcm_dns_resolve_sync polls with an infinite timeout)");
    if (nd_bool()) { g_laddr_failed = true; errno = ENOENT; return -1; }
    host->type = xcm_addr_type_ip; return 0;
}
bool xcm_dns_supports_timeout_param(void) { return true; }
struct xcm_dns_query *xcm_dns_resolve(const char *n, struct xpoll *x, double t, void *l) { (void)n; (void)x; (void)t; (void)l; return (struct xcm_dns_query *)&query_token; }
struct tconnect *tconnect_create(enum tconnect_algorithm a, struct xpoll *x, void *l) { (void)a; (void)x; (void)l; return (struct tconnect *)&tconnect_token; }
static int64_t pre_scope, g_tc_scope_out;
int tconnect_connect(struct tconnect *t, const struct xcm_addr_ip *lip, uint16_t lport, int64_t scope, double tmo, const struct tcp_opts *opts,
		     const struct xcm_addr_ip *rips, size_t n, uint16_t rport)
{
    (void)lip; (void)lport; (void)rips;
    CHECK((void *)t == (void *)&tconnect_token, "C13: the connection's own tconnect");
    CHECK(scope == pre_scope, "C11: the configured ipv6.scope (or none) is what the connect machinery is given");
    g_tc_connect_calls++; g_tc_num_ips = (int)n; g_tc_opts_arg = opts; g_tc_timeout_arg = tmo; g_tc_port_arg = rport;
    if (g_tc_connect_rc < 0) { errno = g_tc_connect_errno; return -1; }
    g_tc_snapshot = *opts;                 /* TCONNECT contract: snapshot of the options at this moment */
    return 0;
}
int tconnect_get_connected_fd(struct tconnect *t, int *fd, int64_t *scope, struct tcp_opts *opts)
{
    CHECK((void *)t == (void *)&tconnect_token, "C13: the connection's own tconnect");
    if (g_tc_get_rc < 0) { errno = g_tc_get_errno; return -1; }
    *fd = DATA_FD; *opts = g_tc_snapshot;
    /* TCONNECT contract: the scope of the address that connected (the configured one, 0 for IPv6 without, -1 for IPv4) */
    g_tc_scope_out = pre_scope >= 0 ? pre_scope : (nd_bool() ? 0 : -1);
    *scope = g_tc_scope_out;
    /* TCONNECT contract (asserted of tconnect.c): the fd handed over has the snapshot options in force */
    K[0] = (struct kopts){ true, true, true, true, true, g_tc_snapshot.keepalive, (int)g_tc_snapshot.keepalive_time, (int)g_tc_snapshot.keepalive_interval,
			   (int)g_tc_snapshot.keepalive_count, (int)(g_tc_snapshot.user_timeout * 1000) };
    return 0;
}
void tconnect_destroy(struct tconnect *t, bool owner) { (void)owner; if (t != NULL) g_tconnect_destroyed = true; }
const char *tconnect_algorithm_str(enum tconnect_algorithm a) { return a == tconnect_algorithm_single ? "single" : a == tconnect_algorithm_sequential ? "sequential" : "happy_eyeballs"; }
enum tconnect_algorithm tconnect_algorithm_enum(const char *s) { (void)s; return (enum tconnect_algorithm)nd_range(0, 3); }
void tp_ip_to_sockaddr(const struct xcm_addr_ip *ip, uint16_t port, int64_t scope, struct sockaddr *sa) { (void)ip; (void)port; (void)scope; (void)sa; }
void tp_sockaddr_to_btcp_addr(struct sockaddr_storage *sa, char *a, size_t cap) { (void)sa; if (cap > 4) { a[0] = 'b'; a[1] = ':'; a[2] = nd_bool() ? '1' : '2'; a[3] = 0; } }
int xcm_addr_parse_btcp(const char *a, struct xcm_addr_host *h, uint16_t *p) { (void)a; if (nd_bool()) { g_laddr_failed = true; errno = EINVAL; return -1; } h->type = nd_bool() ? xcm_addr_type_ip : xcm_addr_type_name; *p = nd_u16();
#ifdef KF_LOCAL_NAME_SYNC_RESOLVE
    ASSUME(h->type == xcm_addr_type_ip);          /* known finding C05-named-local-addr-resolved-synchronously assumed away: local addresses are numeric */
#endif
    return 0; }

/* the code under test */
#include "dns_attr.c"
#include "tcp_attr.c"
#include "xcm_tp_btcp.c"
/* xcm_tp.c (xcm_tp_get_str_attr & co.) is linked as a separate real translation unit */
void xcm_tp_register(const char *n, const struct xcm_tp_ops *o);
static struct { struct xcm_socket s; struct btcp_socket priv; } sock;
#define S (&sock.s)
#define BTS (&sock.priv)

struct pre { enum conn_state state; int reason; int fd; int64_t cnts[8]; struct tcp_opts opts; };
static struct pre pre;

static bool valid_opts(const struct tcp_opts *o)
{
    return o->keepalive_time >= 1 && o->keepalive_time <= INT32_MAX && o->keepalive_interval >= 1 && o->keepalive_interval <= INT32_MAX &&
	o->keepalive_count >= 1 && o->keepalive_count <= INT32_MAX && o->user_timeout >= 1 && o->user_timeout <= INT32_MAX / 1000;
}
static void nd_opts(struct tcp_opts *o)
{
    o->keepalive = nd_bool(); o->keepalive_time = nd_i64(); o->keepalive_interval = nd_i64(); o->keepalive_count = nd_i64(); o->user_timeout = nd_i64();
    ASSUME(valid_opts(o));
}
static bool k_matches(const struct kopts *k, const struct tcp_opts *o)
{
    return k->set_keepalive && k->set_idle && k->set_intvl && k->set_cnt && k->set_ut && (k->keepalive != 0) == o->keepalive && k->idle == o->keepalive_time && k->intvl == o->keepalive_interval &&
	k->cnt == o->keepalive_count && k->user_timeout_ms == o->user_timeout * 1000;
}

/* arbitrary valid connection state (INV_btcp) */
static void build_conn(bool allow_initialized)
{
    CHECK((char *)BTS == (char *)S + sizeof(struct xcm_socket), "harness: private area follows struct xcm_socket");
    static struct xcm_tp_proto proto = { "btcp", &btcp_ops };
    S->proto = &proto;
    S->type = xcm_socket_type_conn;
    S->condition = (int)nd_range(0, 3);
    S->xpoll = (struct xpoll *)&sock;
    int st = (int)nd_range(allow_initialized ? conn_state_initialized : conn_state_resolving, conn_state_bad);
    BTS->conn.state = (enum conn_state)st;
    BTS->conn.bell_reg_id = BELL_REG;
    BTS->fd = -1; BTS->fd_reg_id = -1; BTS->conn.query = NULL; BTS->conn.tconnect = NULL;
    BTS->conn.badness_reason = 0;
    BTS->scope = nd_bool() ? -1 : (int64_t)nd_range(0, UINT32_MAX);
    pre_scope = BTS->scope;
    switch (st) {
    case conn_state_initialized: break;
    case conn_state_resolving: BTS->conn.query = (struct xcm_dns_query *)&query_token; BTS->conn.tconnect = (struct tconnect *)&tconnect_token; break;
    case conn_state_connecting: BTS->conn.tconnect = (struct tconnect *)&tconnect_token; break;
    case conn_state_ready: BTS->fd = DATA_FD; BTS->fd_reg_id = FD_REG; break;
    case conn_state_closed: BTS->fd = DATA_FD; BTS->fd_reg_id = FD_REG; break;
    case conn_state_bad:
	BTS->conn.badness_reason = nd_int(); ASSUME(BTS->conn.badness_reason > 0);
	if (nd_bool()) { BTS->fd = DATA_FD; BTS->fd_reg_id = FD_REG; }
	break;
    }
    nd_opts(&BTS->conn.tcp_opts);
    BTS->conn.dns_algorithm = (enum tconnect_algorithm)nd_range(st == conn_state_initialized ? 0 : 1, 3);
    BTS->conn.tcp_connect_timeout = st == conn_state_initialized && nd_bool() ? -1 : 3;
    BTS->conn.remote_port = nd_u16();
    dns_opts_init(&BTS->conn.dns_opts);
    for (int i = 0; i < 8; i++) { BTS->conn.cnts[i] = (int64_t)nd_range(0, 1LL << 60); pre.cnts[i] = BTS->conn.cnts[i]; }
    pre.state = BTS->conn.state; pre.reason = BTS->conn.badness_reason; pre.fd = BTS->fd; pre.opts = BTS->conn.tcp_opts;
    /* the kernel options of an established connection are the stored ones (INV, shown by OP_ESTABLISH / OP_SETOPT) */
    if (BTS->fd >= 0 && st == conn_state_ready)
	K[0] = (struct kopts){ true, true, true, true, true, pre.opts.keepalive, (int)pre.opts.keepalive_time, (int)pre.opts.keepalive_interval, (int)pre.opts.keepalive_count, (int)(pre.opts.user_timeout * 1000) };
    /* environment of try_establish */
    g_query_completed = nd_bool(); g_query_rc = nd_bool() ? (int)nd_range(1, 4) : -1; g_query_errno = nd_bool() ? ENOENT : ETIMEDOUT;
    g_tc_connect_rc = nd_bool() ? 0 : -1; g_tc_connect_errno = nd_hard_errno();
    g_tc_get_rc = nd_bool() ? 0 : -1; g_tc_get_errno = nd_bool() ? EAGAIN : nd_hard_errno();
    g_tc_snapshot = pre.opts; if (nd_bool()) nd_opts(&g_tc_snapshot);
}

/* INV_btcp on the post-state, and stickiness of terminal states */
static void check_inv(void)
{
    enum conn_state st = BTS->conn.state;
    CHECK(st >= conn_state_initialized && st <= conn_state_bad, "C06: INV state is a legal state");
    if (pre.state == conn_state_closed) CHECK(st == conn_state_closed, "C06: closed is terminal (never usable again)");
    if (pre.state == conn_state_bad) CHECK(st == conn_state_bad && BTS->conn.badness_reason == pre.reason, "C06: bad is terminal and keeps its errno");
    if (st == conn_state_bad) CHECK(BTS->conn.badness_reason != 0, "C06: INV a bad connection carries its errno");
    if (st == conn_state_ready) CHECK(BTS->fd >= 0 && BTS->fd_reg_id == FD_REG, "C04: INV a ready connection has its descriptor registered");
    if (st == conn_state_connecting) CHECK(BTS->conn.tconnect != NULL && BTS->fd == -1, "C13: INV connecting has a tconnect and no descriptor yet");
    if (st == conn_state_resolving) CHECK(BTS->conn.query != NULL, "C13: INV resolving has a query");
    for (int i = 0; i < 8; i++) CHECK(BTS->conn.cnts[i] >= pre.cnts[i], "C17: counters never decrease");
    CHECK(BTS->conn.cnts[xcm_tp_cnt_from_app_bytes] - pre.cnts[xcm_tp_cnt_from_app_bytes] == BTS->conn.cnts[xcm_tp_cnt_to_lower_bytes] - pre.cnts[xcm_tp_cnt_to_lower_bytes], "C17: a byte stream buffers nothing: from_app and to_lower move together");
    CHECK(BTS->conn.cnts[xcm_tp_cnt_from_lower_bytes] - pre.cnts[xcm_tp_cnt_from_lower_bytes] == BTS->conn.cnts[xcm_tp_cnt_to_app_bytes] - pre.cnts[xcm_tp_cnt_to_app_bytes], "C17: from_lower and to_app move together");
}
static void check_cnts_unchanged(void) { for (int i = 0; i < 4; i++) CHECK(BTS->conn.cnts[i] == pre.cnts[i], "C17: a call that moved no data counts nothing"); }

static char appbuf[16];

#if defined(OP_SEND) || defined(OP_RECV) || defined(OP_FINISH)
int main(void)
{
    build_conn(false);
    g_app_buf = appbuf; g_app_len = nd_size();
#ifdef OP_RECV
    ASSUME(g_app_len >= 1);    /* capacity 0 is outside the documented use (a 0-byte read cannot be told from end of stream) */
#endif
#ifdef OP_SEND
    errno = 0; int rc = btcp_send(S, appbuf, g_app_len); int e = errno;
#elif defined(OP_RECV)
    errno = 0; int rc = btcp_receive(S, appbuf, g_app_len); int e = errno;
#else
    errno = 0; int rc = btcp_finish(S); int e = errno;
#endif
    enum conn_state st = BTS->conn.state;
    int io_calls = g_send_calls + g_recv_calls;
    /* what try_establish may have done: resolving/connecting -> connecting/ready/bad */
    if (pre.state == conn_state_closed) {
#ifdef OP_RECV
	CHECK(rc == 0, "C06: once closed, receive returns 0 and keeps returning 0");
#else
	CHECK(rc == -1 && e == EPIPE, "C06: once the close has been seen, send/finish fail with EPIPE");
#endif
	CHECK(io_calls == 0, "C06: no kernel I/O on a closed connection");
	check_cnts_unchanged();
    } else if (pre.state == conn_state_bad) {
	CHECK(rc == -1 && e == pre.reason, "C06: every later send, receive and finish reports the same errno");
	CHECK(io_calls == 0, "C06: no kernel I/O on a failed connection");
	check_cnts_unchanged();
    } else if (st == conn_state_resolving || st == conn_state_connecting) {
	CHECK(rc == -1 && e == EAGAIN, "C05: while resolving/connecting the call reports EAGAIN instead of waiting");
	CHECK(io_calls == 0, "C02: no kernel I/O before the connection is ready");
	check_cnts_unchanged();
    } else if (io_calls == 0 && st == conn_state_bad) {
	CHECK(rc == -1 && e == BTS->conn.badness_reason, "C06,C13: a failed establishment is reported by the call that discovers it, with its errno");
	check_cnts_unchanged();
	WITNESS(pre.state == conn_state_resolving, "resolution failure reported by a data-path call");
    } else {
#if defined(OP_FINISH)
	CHECK(io_calls == 0 && rc == 0 && st == conn_state_ready, "C04: finish on a ready byte stream succeeds without I/O");
	check_cnts_unchanged();
#else
	CHECK(io_calls == 1, "C02: exactly one kernel call per send/receive on a ready connection");
	CHECK(rc == g_sys_rc, "C02: the kernel's result is the call's result");
#ifdef OP_SEND
	if (g_app_len > 0) CHECK(rc == -1 || (rc >= 1 && (size_t)rc <= g_app_len), "C02: for len > 0 send returns 1..len or -1");
	int64_t moved = rc > 0 ? rc : 0;
	CHECK(BTS->conn.cnts[xcm_tp_cnt_from_app_bytes] == pre.cnts[xcm_tp_cnt_from_app_bytes] + moved && BTS->conn.cnts[xcm_tp_cnt_to_lower_bytes] == pre.cnts[xcm_tp_cnt_to_lower_bytes] + moved, "C17: from_app/to_lower count exactly the bytes the kernel accepted");
	CHECK(BTS->conn.cnts[xcm_tp_cnt_to_app_bytes] == pre.cnts[xcm_tp_cnt_to_app_bytes] && BTS->conn.cnts[xcm_tp_cnt_from_lower_bytes] == pre.cnts[xcm_tp_cnt_from_lower_bytes], "C17: send does not touch the receive counters");
	WITNESS(rc > 0 && (size_t)rc < g_app_len, "partial write");
#else
	if (rc >= 0) CHECK((size_t)rc <= g_app_len, "C02: receive never returns more than capacity");
	int64_t moved = rc > 0 ? rc : 0;
	CHECK(BTS->conn.cnts[xcm_tp_cnt_to_app_bytes] == pre.cnts[xcm_tp_cnt_to_app_bytes] + moved && BTS->conn.cnts[xcm_tp_cnt_from_lower_bytes] == pre.cnts[xcm_tp_cnt_from_lower_bytes] + moved, "C17: from_lower/to_app count exactly the bytes delivered");
	CHECK(BTS->conn.cnts[xcm_tp_cnt_from_app_bytes] == pre.cnts[xcm_tp_cnt_from_app_bytes] && BTS->conn.cnts[xcm_tp_cnt_to_lower_bytes] == pre.cnts[xcm_tp_cnt_to_lower_bytes], "C17: receive does not touch the send counters");
	if (rc == 0 && g_app_len > 0) CHECK(st == conn_state_closed, "C06: end of stream closes the connection");
	WITNESS(rc == 0 && st == conn_state_closed, "peer close seen");
#endif
	if (rc == -1) {
	    CHECK(e == g_sys_errno, "C06: the call that discovers a failure reports that errno");
	    if (e == EAGAIN) CHECK(st == conn_state_ready, "C06: EAGAIN leaves the connection usable");
#ifdef OP_SEND
	    else if (e == EPIPE) CHECK(st == conn_state_closed, "C06: EPIPE on send means the peer closed");
#endif
	    else CHECK(st == conn_state_bad && BTS->conn.badness_reason == e, "C06: a connection failure is remembered with its errno (reset, timeout, unreachable are not an orderly close)");
	    WITNESS(e == ECONNRESET, "connection reset discovered");
	} else if (!(rc == 0 && g_app_len > 0))
	    CHECK(st == conn_state_ready, "C06: a successful call leaves the connection ready");
#endif
    }
    CHECK(g_close_calls == 0, "C08: the data path never closes a descriptor");
    check_inv();
    return 0;
}
#endif

#ifdef OP_UPDATE
int main(void)
{
    build_conn(false);
    int cond = S->condition;
    btcp_update(S);
    switch (pre.state) {
    case conn_state_ready: {
	int want = ((cond & XCM_SO_SENDABLE) ? EPOLLOUT : 0) | ((cond & XCM_SO_RECEIVABLE) ? EPOLLIN : 0);
	CHECK(g_fd_mod_calls >= 1 && (g_fd_mod_event & want) == want, "C04: ready: the data descriptor is watched for everything awaited (no lost wake-up)");
	CHECK((g_fd_mod_event & ~want) == 0, "C16: ready: the data descriptor is watched for nothing beyond the awaited condition (quiet when idle)");
	CHECK(g_bell_ringing == 0, "C16: ready: the bell does not ring");
	WITNESS(cond == 0, "idle: mask 0, no bell");
	break; }
    case conn_state_closed: case conn_state_bad:
	CHECK(g_bell_ringing == 1, "C04: closed/failed: the socket is immediately readable so the application learns of it");
	WITNESS(pre.state == conn_state_bad, "failed connection rings the bell");
	break;
    case conn_state_resolving:
	CHECK(g_bell_ringing == (g_query_completed ? 1 : 0), "C04,C16: resolving: readable exactly when the query has completed");
	break;
    case conn_state_connecting:
	CHECK(g_bell_ringing == 0 && g_fd_mod_calls == 0, "C16: connecting: readiness comes from tconnect's own registrations");
	break;
    default: break;
    }
    CHECK(g_send_calls + g_recv_calls == 0 && BTS->conn.state == pre.state, "C16: update performs no I/O and no state change");
    check_inv();
    return 0;
}
#endif

#ifdef OP_SERVER_UPDATE
int main(void)
{
    static struct xcm_tp_proto proto = { "btcp", &btcp_ops };
    S->proto = &proto; S->type = xcm_socket_type_server; S->xpoll = (struct xpoll *)&sock;
    BTS->fd = DATA_FD; BTS->fd_reg_id = FD_REG; BTS->server.created = true;
    S->condition = nd_bool() ? XCM_SO_ACCEPTABLE : 0;
    btcp_update(S);
    CHECK(g_fd_mod_calls >= 1 && g_fd_mod_event == ((S->condition & XCM_SO_ACCEPTABLE) ? EPOLLIN : 0), "C04,C16: server: listen descriptor watched for EPOLLIN exactly while ACCEPTABLE is awaited");
    CHECK(btcp_finish(S) == 0, "C04: a server socket has no outstanding work");
    WITNESS(S->condition == 0, "server idle: mask 0");
    return 0;
}
#endif

#ifdef OP_GETTER
/* G-CAP for one real getter: any state, capacity >= the fixed size for fixed
 * types (attr_tree_get_value guarantees that; see attr/tree.c), any capacity
 * for strings */
#define BUFMAX 24
int main(void)
{
    build_conn(true);
    if (nd_bool()) { S->type = xcm_socket_type_server; BTS->fd = nd_bool() ? DATA_FD : -1; BTS->server.created = nd_bool(); }
#if GSIZE > 0
    size_t cap = (size_t)nd_range(GSIZE, BUFMAX);
#else
    size_t cap = (size_t)nd_range(0, BUFMAX);
#endif
    uint8_t buf[BUFMAX + 1];
    memset(buf, 0x55, sizeof(buf));
    errno = 0;
    int rc = GETTER(S, NULL, buf, cap);
    int e = errno;
    for (size_t i = 0; i <= BUFMAX; i++) if (i >= cap) CHECK(buf[i] == 0x55, "C10: the getter never writes more than `capacity` bytes");
    if (rc >= 0) {
	CHECK((size_t)rc <= cap, "C10: the returned length fits the capacity");
#if GSIZE > 0
	CHECK(rc == GSIZE, "C10: a fixed-size value reports its size");
#else
	CHECK(rc >= 1 && buf[rc - 1] == 0 && strlen((char *)buf) == (size_t)rc - 1, "C10: a string value is NUL-terminated inside the returned length");
#endif
	for (size_t i = 0; i <= BUFMAX; i++) if (i >= (size_t)rc) CHECK(buf[i] == 0x55, "C10: the returned length is exactly the number of bytes written");
	WITNESS((size_t)rc == cap, "value exactly fills the buffer");
    } else
	CHECK(rc == -1 && e != 0, "C10: failure is -1 with errno");
    CHECK(BTS->conn.state == pre.state || S->type == xcm_socket_type_server, "C10: reading an attribute does not change the connection state");
#ifdef SEM_HAS
    /* C11: what the getter reports is the value the socket holds (the one the setter stored / the one that governs behaviour) */
#ifndef SEM_ANYTYPE
    if (S->type == xcm_socket_type_conn)
#endif
    {
	if (SEM_HAS) {
#ifdef SEM_STR
	    if (cap >= strlen(SEM_STR) + 1) CHECK(rc == (int)strlen(SEM_STR) + 1 && strcmp((char *)buf, SEM_STR) == 0, "C11: the attribute reports the configured value");
#else
	    SEM_T expect = SEM_V;
	    CHECK(rc == (int)sizeof(SEM_T) && memcmp(buf, &expect, sizeof(SEM_T)) == 0, "C11: the attribute reports the configured value");
#endif
	} else
	    CHECK(rc == -1, "C10,C11: an attribute that has no value on this socket is not reported");
	WITNESS(SEM_HAS, "attribute present");
    }
#endif
    return 0;
}
#endif

#ifdef OP_SETOPT
/* FORCE (C11): every tcp.* setter from an arbitrary state keeps "kernel
 * options of the live descriptor = f(stored options)"; a refused or failed
 * set leaves the stored value equal to what is in force */
int main(void)
{
    build_conn(true);
    int which = (int)nd_range(0, 4);
    int64_t v = nd_i64(); bool b = nd_bool();
    struct tcp_opts before = BTS->conn.tcp_opts;
    errno = 0;
    int rc;
    switch (which) {
    case 0: rc = set_keepalive_attr(S, NULL, &b, sizeof(b)); break;
    case 1: rc = set_keepalive_time_attr(S, NULL, &v, sizeof(v)); break;
    case 2: rc = set_keepalive_interval_attr(S, NULL, &v, sizeof(v)); break;
    case 3: rc = set_keepalive_count_attr(S, NULL, &v, sizeof(v)); break;
    default: rc = set_user_timeout_attr(S, NULL, &v, sizeof(v)); break;
    }
    int e = errno;
    struct tcp_opts *o = &BTS->conn.tcp_opts;
    CHECK(valid_opts(o), "C10,C11: stored options stay within what the kernel interface can express (no overflow of seconds*1000 into int)");
    if (rc == 0) {
	/* what xcm_attr_get reports afterwards */
	switch (which) {
	case 0: CHECK(o->keepalive == b, "C11: accepted value is what the getter reports"); break;
	case 1: CHECK(o->keepalive_time == v, "C11: accepted value is what the getter reports"); break;
	case 2: CHECK(o->keepalive_interval == v, "C11: accepted value is what the getter reports"); break;
	case 3: CHECK(o->keepalive_count == v, "C11: accepted value is what the getter reports"); break;
	default: CHECK(o->user_timeout == v, "C11: accepted value is what the getter reports"); break;
	}
	if (pre.state == conn_state_ready) CHECK(k_matches(&K[0], o), "C10,C11: an accepted value is in force on the established connection");
	WITNESS(pre.state == conn_state_ready && which == 4 && v != before.user_timeout, "user timeout changed on an established connection");
    } else {
	CHECK(e == EINVAL || e == ENOPROTOOPT, "C11: a set fails with EINVAL (or the kernel's errno)");
	if (pre.state == conn_state_ready) CHECK(k_matches(&K[0], o), "C11: after a failed set the value reported is still the one in force");
	if (g_setsockopt_failed == 0) CHECK(memcmp(o, &before, sizeof(before)) == 0, "C10,C11: a rejected value changes nothing");
	WITNESS(g_setsockopt_failed > 0, "kernel refused the option");
    }
    CHECK(BTS->conn.state == pre.state, "C11: setting an option does not change the connection state");
    return 0;
}
#endif

#ifdef OP_ESTABLISH
/* FORCE (C11) + C13 btcp level: one try_establish step from resolving/connecting */
int main(void)
{
    build_conn(false);
    ASSUME(pre.state == conn_state_resolving || pre.state == conn_state_connecting);
    struct tcp_opts cur = BTS->conn.tcp_opts;     /* "anything was set while connecting" */
    S->is_blocking = g_socket_blocking = nd_bool();
    if (nd_bool()) { BTS->laddr[0] = 'l'; BTS->laddr[1] = 0; }      /* xcm.local_addr given at creation (numeric or by name: xcm_addr_parse_btcp mock) */
    try_establish(S);
    WITNESS(g_sync_waits == 0 && BTS->laddr[0] != 0 && g_tc_connect_calls == 1, "connect started from a numeric local address");
    enum conn_state st = BTS->conn.state;
    if (st == conn_state_ready) {
	CHECK(BTS->fd == DATA_FD && g_fd_add_calls == 1 && g_fd_add_fd == DATA_FD, "C04: the established descriptor is registered");
	CHECK(k_matches(&K[0], &cur), "C11: keepalive and user-timeout settings given before or DURING establishment are in force on the established connection");
	CHECK(BTS->scope == g_tc_scope_out && (pre_scope < 0 || BTS->scope == pre_scope), "C11: ipv6.scope of an established connection reports the scope in force - a configured one is never replaced");
	CHECK(g_tconnect_destroyed && BTS->conn.tconnect == NULL, "C08: tconnect released once connected");
	WITNESS(memcmp(&cur, &g_tc_snapshot, sizeof(cur)) != 0, "options changed while the TCP handshake was pending");
    }
    if (pre.state == conn_state_resolving) {
	CHECK(g_query_processed, "C13: the query is driven on every call");
	if (!g_query_completed) CHECK(st == conn_state_resolving && !g_query_destroyed, "C13: an incomplete query keeps the connection resolving");
	else {
	    CHECK(g_query_destroyed && BTS->conn.query == NULL, "C08: a completed query is released");
	    if (g_query_rc < 0) CHECK(st == conn_state_bad && BTS->conn.badness_reason == g_query_errno, "C13: resolver failure or timeout fails the connection with the resolver's errno (ENOENT)");
	    else if (g_laddr_failed) CHECK(st == conn_state_bad && g_tc_connect_calls == 0 && (BTS->conn.badness_reason == EINVAL || BTS->conn.badness_reason == ENOENT), "C13: a local address that cannot be parsed or resolved fails the connection with that errno, no connect is attempted");
	    else {
		CHECK(g_tc_connect_calls == 1 && g_tc_num_ips == g_query_rc, "C13: the resolver's address list is passed on whole");
		CHECK(g_tc_opts_arg == &BTS->conn.tcp_opts && g_tc_port_arg == BTS->conn.remote_port, "C11,C13: tconnect gets the connection's own options and port");
		if (g_tc_connect_rc < 0) CHECK(st == conn_state_bad && BTS->conn.badness_reason == g_tc_connect_errno, "C13: a failed connect start is remembered with its errno");
	    }
	    WITNESS(g_query_rc == 4 && st == conn_state_connecting, "4 addresses resolved, TCP connect pending");
	}
    }
    if (pre.state == conn_state_connecting || (pre.state == conn_state_resolving && g_query_completed && g_query_rc > 0 && g_tc_connect_rc == 0 && !g_laddr_failed)) {
	if (g_tc_get_rc < 0 && g_tc_get_errno == EAGAIN) CHECK(st == conn_state_connecting, "C13: a pending connect keeps the connection connecting");
	if (g_tc_get_rc < 0 && g_tc_get_errno != EAGAIN) CHECK(st == conn_state_bad && BTS->conn.badness_reason == g_tc_get_errno, "C06,C13: the errno of the last failed attempt is remembered");
    }
    CHECK(g_send_calls + g_recv_calls == 0, "C02: establishment moves no data");
    check_inv();
    return 0;
}
#endif

#ifdef OP_ONCE
/* ONCE (C11): creation-only attributes are refused with EACCES afterwards, changing nothing */
int main(void)
{
    build_conn(true);
    int which = (int)nd_range(0, 4);
    double d = 1.0; int64_t sc = (int64_t)nd_range(0, 10); char alg[] = "single"; char la[] = "btcp:1.2.3.4:0";
    struct btcp_socket before = *BTS;
    errno = 0; int rc;
    switch (which) {
    case 0: rc = set_dns_timeout_attr(S, NULL, &d, sizeof(d)); break;
    case 1: rc = set_dns_algorithm_attr(S, NULL, alg, sizeof(alg)); break;
    case 2: rc = set_tcp_connect_timeout_attr(S, NULL, &d, sizeof(d)); break;
    case 3: rc = set_scope_attr(S, NULL, &sc, sizeof(sc)); break;
    default: rc = btcp_set_local_addr(S, la); break;
    }
    int e = errno;
    bool creation = pre.state == conn_state_initialized || (which == 2 && pre.state == conn_state_resolving);
    if (!creation) {
	CHECK(rc == -1 && e == EACCES, "C11: attributes writable only at creation are refused with EACCES afterwards");
	CHECK(BTS->scope == before.scope && BTS->conn.dns_algorithm == before.conn.dns_algorithm && BTS->conn.tcp_connect_timeout == before.conn.tcp_connect_timeout &&
	      BTS->laddr[0] == before.laddr[0] && BTS->conn.dns_opts.timeout == before.conn.dns_opts.timeout, "C11: a refused creation-only attribute changes nothing");
	WITNESS(pre.state == conn_state_ready && which == 4, "xcm.local_addr refused on an established connection");
    } else
	WITNESS(rc == 0, "creation-only attribute accepted on a fresh socket");
    return 0;
}
#endif
