/* libxcm/core/timer_mgr.c (real): one operation from an arbitrary manager
 * holding <= 3 timers, over a clock stub and a timerfd stub.  Asserts the
 * TIMER contract that the tconnect and DNS obligations assume.  Serves C13 C04 C08.
 *   -DOP_SCHEDULE | OP_CANCEL | OP_EXPIRED | OP_LIFE
 */
#include "stubs.h"
#include <errno.h>
#include <sys/epoll.h>
#include <sys/timerfd.h>
#include <math.h>

#define TFD 8
static double g_now;
static int g_settime_calls; static bool g_armed; static double g_armed_at; static bool g_armed_asap;
static int g_tfd_create_fail, g_close_calls, g_reg_add, g_reg_del, g_reg_event;
double ut_ftime(void) { return g_now; }
static double g_conv_arg;
void ut_f_to_timespec(double t, struct timespec *ts) { g_conv_arg = t; ts->tv_sec = 1; ts->tv_nsec = 0; }   /* conversion itself: libm, outside the claim */
int timerfd_create(int clockid, int flags) { CHECK(clockid == CLOCK_MONOTONIC && (flags & TFD_NONBLOCK), "C05: the timer descriptor is non-blocking, monotonic clock"); if (g_tfd_create_fail) { errno = EMFILE; return -1; } return TFD; }
int timerfd_settime(int fd, int flags, const struct itimerspec *n, struct itimerspec *o)
{
    (void)o; CHECK(fd == TFD && (flags & TFD_TIMER_ABSTIME), "C13: the manager's own timerfd, absolute time");
    g_settime_calls++;
    g_armed = n->it_value.tv_sec != 0 || n->it_value.tv_nsec != 0;
    g_armed_asap = n->it_value.tv_sec == 0 && n->it_value.tv_nsec == 1;
    g_armed_at = g_armed_asap ? 0.0 : g_conv_arg;
    return 0;
}
int xpoll_fd_reg_add(struct xpoll *x, int fd, int e) { (void)x; CHECK(fd == TFD, "C04: the timerfd is what gets registered"); g_reg_add++; g_reg_event = e; return 3; }
void xpoll_fd_reg_del(struct xpoll *x, int id) { (void)x; CHECK(id == 3, "C08: own registration"); g_reg_del++; }
void ut_close(int fd) { CHECK(fd == TFD, "C08: only the manager's own timerfd is closed"); g_close_calls++; }
void ut_mem_exhausted(void) { abort(); }
void *ut_malloc(size_t n) { void *p = malloc(n); ASSUME(p != NULL); return p; }
void ut_free(void *p) { free(p); }

#include "timer_mgr.c"

#define NT 3
static struct timer_mgr mgr; static double exp_[NT]; static bool present[NT]; static struct mtimer *nodes[NT];
static double nd_time(void) { double d; long long raw = nd_ll(); d = (double)(raw % 1000000) / 8.0; ASSUME(d >= 0); return d; }
static void build(void)
{
    mgr.timer_fd = TFD; mgr.timer_fd_reg_id = 3; mgr.next_timer_id = NT; LIST_INIT(&mgr.mtimers);
    g_now = nd_time();
    /* any subset of ids 0..2, in any list order */
    int order = (int)nd_range(0, 5);
    static const int perm[6][3] = { {0,1,2},{0,2,1},{1,0,2},{1,2,0},{2,0,1},{2,1,0} };
    for (int k = 0; k < NT; k++) {
	int i = perm[order][k];
	present[i] = nd_bool(); exp_[i] = nd_time();
	if (present[i]) { nodes[i] = malloc(sizeof(struct mtimer)); ASSUME(nodes[i] != NULL); nodes[i]->id = i; nodes[i]->expiry_time = exp_[i]; LIST_INSERT_HEAD(&mgr.mtimers, nodes[i], entry); }
    }
}
static bool any_present(void) { return present[0] || present[1] || present[2]; }
static double min_expiry(void) { double m = 0; bool f = false; for (int i = 0; i < NT; i++) if (present[i] && (!f || exp_[i] < m)) { m = exp_[i]; f = true; } return m; }

int main(void)
{
#ifndef OP_LIFE
    build();
#endif
#ifdef OP_SCHEDULE
    double rel = nd_time() - 10.0;     /* also negative */
    int64_t id = timer_mgr_schedule(&mgr, rel);
    double e = g_now + (rel < 0 ? 0 : rel);
    CHECK(id >= NT, "C13: a fresh timer id");
    double m = any_present() && min_expiry() < e ? min_expiry() : e;
    CHECK(g_armed, "C04: with a timer pending the timerfd is armed");
    CHECK(g_armed_asap ? m <= 0.0 : g_armed_at == m, "C04,C13: the timerfd is armed for the EARLIEST pending expiry (a later-scheduled, later-expiring timer must not postpone an earlier one)");
    struct mtimer *mt = find_mtimer(&mgr, id);
    CHECK(mt != NULL && mt->expiry_time == e, "C13: the timer expires `relative timeout` after now (negative = now)");
    CHECK(timer_mgr_has_expired(&mgr, id) == (g_now > e), "C13: has_expired <=> now is past the expiry");
    WITNESS(any_present() && min_expiry() < e, "an earlier timer was already pending");
#endif
#ifdef OP_EXPIRED
    int i = (int)nd_range(0, NT - 1); ASSUME(present[i]);
    CHECK(timer_mgr_has_expired(&mgr, i) == (g_now > exp_[i]), "C13: has_expired <=> now is past the expiry");
    CHECK(g_settime_calls == 0, "C16: asking does not touch the timerfd");
    WITNESS(g_now > exp_[i], "expired timer");
#endif
#ifdef OP_CANCEL
    int64_t id = (int64_t)nd_range(-1, NT); bool ack = nd_bool();
    if (ack) ASSUME(id >= 0 && id < NT && present[id]);
    int64_t h = id;
    if (ack) timer_mgr_ack(&mgr, &h); else timer_mgr_cancel(&mgr, &h);
    CHECK(h == -1, "C08: the caller's handle is invalidated");
    if (id >= 0 && id < NT && present[id]) {
	present[id] = false;
	if (any_present()) CHECK(g_armed && (g_armed_asap ? min_expiry() <= 0.0 : g_armed_at == min_expiry()), "C04,C13: after a cancel the timerfd is re-armed for the earliest remaining expiry");
	else CHECK(!g_armed && g_settime_calls >= 1, "C16: with no timer pending the timerfd is disarmed (an idle socket is not woken)");
    } else CHECK(g_settime_calls == 0, "C08: cancelling an unknown id changes nothing");
    for (int i = 0; i < NT; i++) CHECK((find_mtimer(&mgr, i) != NULL) == present[i], "C13: exactly the cancelled timer is removed");
    WITNESS(!any_present() && g_settime_calls == 1, "last timer cancelled: disarmed");
#endif
#ifdef OP_LIFE
    g_tfd_create_fail = nd_bool();
    struct timer_mgr *t = timer_mgr_create(NULL, NULL);
    if (t == NULL) CHECK(g_tfd_create_fail && g_reg_add == 0 && g_close_calls == 0, "C08: timerfd exhaustion is reported as NULL, nothing left behind");
    else {
	CHECK(g_reg_add == 1 && g_reg_event == EPOLLIN, "C04: the timerfd is registered for EPOLLIN");
	int64_t a = timer_mgr_schedule(t, 1.0); (void)a;
	bool owner = nd_bool();
	int settime_before = g_settime_calls;
	timer_mgr_destroy(t, owner);
	if (!owner) CHECK(g_settime_calls == settime_before, "C08,C04: destroying the manager in a forked child does not re-program the timerfd it shares with the owner (whose pending timers must still fire)");
	CHECK(g_close_calls == 1 && g_reg_del == (owner ? 1 : 0), "C08: destroy closes the timerfd once; the registration is removed by the owner only");
	WITNESS(!owner, "destroyed in a forked child");
    }
    timer_mgr_destroy(NULL, true);
#endif
    return 0;
}
