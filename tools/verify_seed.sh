#!/bin/bash
# verify_seed.sh <seed-dir>: confirm in a scratch worktree of /repo (HEAD) that
#  (1) the demo passes on the unmodified tree, (2) with patch.diff applied the tree builds and
#  the demo fails, (3) the existing test suite still passes with the patch.
# Writes <seed-dir>/verify.json.  The worktree is removed afterwards.
set -u
SD=$(readlink -f "$1"); NAME=$(basename "$SD"); WT=/tmp/vs_$NAME; LOG=$SD/verify.log
OFFLINE="xcm:dns xcm:btcp_dns_timeout xcm:btls_dns_timeout xcm:dns_algorithm_smoke_test xcm:dns_multiple_address_probing xcm:tcp_connect_timeout xcm:tcp_dns_timeout xcm:tls_dns_timeout xcm:utls_dns_timeout xcm:net_ns_switch xcm:tls_invalid_credential_values"
exec >"$LOG" 2>&1
git -C /repo worktree remove --force $WT 2>/dev/null; rm -rf $WT
git -C /repo worktree add --detach $WT HEAD || exit 9
cd $WT && ./autogen.sh >/dev/null 2>&1 && ./configure >/dev/null 2>&1 && make -j8 >/dev/null 2>&1 && make -j8 xcmtest >/dev/null 2>&1 || { echo BUILD-BASE-FAILED; }
echo "== demo on unmodified tree"; (cd $SD && timeout 300 ./run_demo.sh $WT); BASE_RC=$?; echo "rc=$BASE_RC"
git -C $WT apply $SD/patch.diff; APPLY_RC=$?
make -j8 >/dev/null 2>&1 && make -j8 xcmtest >/dev/null 2>&1; BUILD_RC=$?
echo "== demo with change"; (cd $SD && timeout 300 ./run_demo.sh $WT); MUT_RC=$?; echo "rc=$MUT_RC"
echo "== suite with change"; ./xcmtest -c -v -p 8 > $WT/suite.log 2>&1
grep -E "^[a-z_]+:[a-z0-9_]+ +\.\.\." $WT/suite.log | head -0
FAILED=$(grep -E "(FAILED|TIMED OUT|CRASHED|Failed|Timed out|Crashed)" $WT/suite.log | grep -oE "[a-z_]+:[a-z0-9_]+" | sort -u)
tail -5 $WT/suite.log
REAL=""
for t in $FAILED; do
  case " $OFFLINE " in *" $t "*) continue;; esac
  ok=0; for i in 1 2; do if ./xcmtest -c -v $t >/dev/null 2>&1; then ok=1; break; fi; done
  [ $ok = 1 ] || REAL="$REAL $t"
done
echo "failed-in-parallel-run: $FAILED"; echo "failed-alone-too:$REAL"
cd /; git -C /repo worktree remove --force $WT; rm -rf $WT
python3 - "$SD" "$BASE_RC" "$APPLY_RC" "$BUILD_RC" "$MUT_RC" "$REAL" <<'PY'
import sys,json
sd,base,ap,bu,mu,real=sys.argv[1:7]
ok = base=="0" and ap=="0" and bu=="0" and mu!="0" and real.strip()==""
json.dump({"demo_unmodified_rc":int(base),"patch_applies":ap=="0","builds":bu=="0","demo_with_change_rc":int(mu),"suite_failures_beyond_offline_list":real.split(),"verified":ok},open(sd+"/verify.json","w"),indent=1)
print("VERIFIED" if ok else "NOT-VERIFIED")
PY
