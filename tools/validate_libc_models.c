/* Translator validation of harness/common/libc_str.h against glibc (and the
 * repository's real xcm_dns_is_valid_name).  Exit 0 = models agree on every
 * input tried (all strings up to length 5 over a structural alphabet, plus
 * pseudo-random longer strings). */
#define _GNU_SOURCE
#include <arpa/inet.h>
#include <ctype.h>
#include <stdio.h>
#include <stdlib.h>
#include "libc_str.h"
#include "xcm_dns.h"

static const char alpha[] = "a01259.-+ :[]*Z";
static long n_cases, n_bad;

static void one(const char *s)
{
    n_cases++;
    /* strtol */
    char *e1, *e2; errno = 0; long a = strtol(s, &e1, 10); int ea = errno; errno = 0; long b = m_strtol10(s, &e2); int eb = errno;
    if (a != b || e1 != e2 || ea != eb) { n_bad++; printf("strtol mismatch on '%s': %ld/%ld end %ld/%ld errno %d/%d\n", s, a, b, (long)(e1 - s), (long)(e2 - s), ea, eb); }
    /* strtoul */
    { char *f1, *f2; errno = 0; unsigned long ua = strtoul(s, &f1, 10); int ua_e = errno; errno = 0; unsigned long ub = m_strtoul10(s, &f2); int ub_e = errno;
      if (ua != ub || f1 != f2 || ua_e != ub_e) { n_bad++; printf("strtoul mismatch on '%s': %lu/%lu errno %d/%d\n", s, ua, ub, ua_e, ub_e); } }
    /* %ld / %zd / %lu of the value just parsed (all 64-bit magnitudes) */
    { char p1[80], p2[80]; int w1 = snprintf(p1, sizeof(p1), "%ld|%zd|%lu", a, (ssize_t)a, (unsigned long)a), w2 = m_snprintf(p2, sizeof(p2), "%ld|%zd|%lu", a, (ssize_t)a, (unsigned long)a);
      if (w1 != w2 || strcmp(p1, p2)) { n_bad++; printf("snprintf 64-bit mismatch: %d %d %s / %s\n", w1, w2, p1, p2); } }
    /* inet_pton4 */
    struct in_addr x = {0}, y = {0};
    int r1 = inet_pton(AF_INET, s, &x), r2 = m_inet_pton4(s, &y);
    if (r1 != r2 || (r1 == 1 && x.s_addr != y.s_addr)) { n_bad++; printf("inet_pton mismatch on '%s': %d/%d\n", s, r1, r2); }
    /* dns name */
    bool d1 = xcm_dns_is_valid_name(s), d2 = strlen(s) <= 253 && m_dns_re_match(s);
    if (d1 != d2) { n_bad++; printf("dns name mismatch on '%s': %d/%d\n", s, d1, d2); }
    /* snprintf with the formats of xcm_addr.c, all capacities 0..len+2 */
    char o1[700], o2[700];
    int full = snprintf(NULL, 0, "%s%c%s%c%d", "tcp", ':', s, ':', (int)(n_cases % 65536));
    for (int cap = 0; cap <= full + 2 && cap < 690; cap += (full > 40 ? 7 : 1)) {
	memset(o1, 'X', sizeof(o1)); memset(o2, 'X', sizeof(o2));
	int q1 = snprintf(o1, cap, "%s%c%s%c%d", "tcp", ':', s, ':', (int)(n_cases % 65536));
	int q2 = m_snprintf(o2, cap, "%s%c%s%c%d", "tcp", ':', s, ':', (int)(n_cases % 65536));
	if (q1 != q2 || memcmp(o1, o2, sizeof(o1)) != 0) { n_bad++; printf("snprintf mismatch on '%s' cap %d: %d/%d\n", s, cap, q1, q2); break; }
    }
}

int main(int argc, char **argv)
{
    for (int c = 0; c < 256; c++)
	if ((isspace(c) != 0) != (m_isspace(c) != 0)) { n_bad++; printf("isspace mismatch %d\n", c); }
    for (uint32_t v = 0; v < 70000; v++) {
	uint32_t ip = v * 2654435761u; char a[32], b[32];
	const char *p1 = inet_ntop(AF_INET, &ip, a, sizeof(a)), *p2 = m_inet_ntop4(&ip, b, sizeof(b));
	if (!p1 || !p2 || strcmp(a, b)) { n_bad++; printf("inet_ntop mismatch %u\n", ip); }
	char o1[40], o2[40]; int q1 = snprintf(o1, sizeof(o1), "%s%c%c%s%c%c%d", "tls", ':', '[', a, ']', ':', (int)(v % 65536)), q2 = m_snprintf(o2, sizeof(o2), "%s%c%c%s%c%c%d", "tls", ':', '[', a, ']', ':', (int)(v % 65536));
	if (q1 != q2 || strcmp(o1, o2)) { n_bad++; printf("snprintf6 mismatch\n"); }
    }
    /* all strings up to length 5 over the alphabet */
    char s[8]; int na = (int)strlen(alpha);
    for (int len = 0; len <= 5; len++) {
	long total = 1; for (int i = 0; i < len; i++) total *= na;
	for (long k = 0; k < total; k++) {
	    long t = k; for (int i = 0; i < len; i++) { s[i] = alpha[t % na]; t /= na; }
	    s[len] = 0; one(s);
	}
    }
    /* pseudo-random longer strings, including dotted quads and long names */
    unsigned seed = 12345;
    for (int k = 0; k < (argc > 1 ? atoi(argv[1]) : 200000); k++) {
	char t[300]; int len = 1 + (int)((seed = seed * 1103515245u + 12345u) >> 16) % (k % 50 == 0 ? 280 : 18);
	for (int i = 0; i < len; i++) t[i] = alpha[((seed = seed * 1103515245u + 12345u) >> 16) % na];
	t[len] = 0; one(t);
	snprintf(t, sizeof(t), "%u.%u.%u.%u", (seed >> 3) % 300, (seed >> 9) % 260, (seed >> 15) % 30, (seed >> 20) % 256); one(t);
	snprintf(t, sizeof(t), "%lld", (long long)((unsigned long long)seed * seed * 977 - (1LL << 40))); one(t);
	snprintf(t, sizeof(t), "%llu", (unsigned long long)seed * seed * 9778571ULL); one(t);
    }
    one("9223372036854775807"); one("9223372036854775808"); one("-9223372036854775808"); one("-9223372036854775809"); one("4294967297"); one("99999999999999999999999");
    printf("validate_libc_models: %ld cases, %ld mismatches\n", n_cases, n_bad);
    return n_bad ? 1 : 0;
}
