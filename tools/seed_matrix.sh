#!/bin/bash
# seed_matrix.sh [seeds...]: for every seeded change, apply it to a scratch worktree of /repo (HEAD), run the quick check
# of the seed's own property against that worktree (VERIF_REPO), and record one line per seed in /verif/seeded/MATRIX.txt.
# TAG=<name> selects the scratch names and the output file seeded/MATRIX.<name>.txt (several may run in parallel; concatenate afterwards).
# Equivalent to `git -C /repo apply <patch>; ./check <ID>; git -C /repo checkout -- .` but leaves /repo untouched.
TAG=${TAG:-all}; WT=/tmp/seedwt_$TAG; OUT=/verif/seeded/MATRIX.$TAG.txt
cd /verif
git -C /repo worktree remove --force $WT 2>/dev/null; rm -rf $WT
git -C /repo worktree add --detach $WT HEAD >/dev/null 2>&1 || exit 9
cp /repo/common/config.h $WT/common/config.h; cp /repo/include/xcm_version.h $WT/include/xcm_version.h
SEEDS=${@:-$(ls /verif/seeded | grep -E '^C[0-9]+[ab]$')}
for S in $SEEDS; do
  P=$(echo $S | cut -c1-3)
  git -C $WT checkout -q -- . ; git -C $WT apply /verif/seeded/$S/patch.diff || { echo "$S $P PATCH-DOES-NOT-APPLY" | tee -a $OUT.new; continue; }
  out=$(VERIF_REPO=$WT VERIF_BUILD=/tmp/seedbuild_$TAG ./check $P --no-evidence --jobs ${JOBS:-8} 2>&1); rc=$?
  echo "$S $P rc=$rc violations=$(echo "$out" | grep -c '^VIOLATION') :: $(echo "$out" | grep -E '^  (violated|inconclusive):' | cut -c1-90 | tr '\n' ';') :: $(echo "$out" | grep '^    - ' | head -2 | cut -c1-170 | tr '\n' '|')" | tee -a $OUT.new
done
mv $OUT.new $OUT
git -C /repo worktree remove --force $WT; rm -rf $WT /tmp/seedbuild_$TAG
