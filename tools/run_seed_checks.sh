#!/bin/bash
# run_seed_checks.sh <seed> [props...]: apply the seed to /repo, run the quick check of the property (default: the seed's own), revert.
S=$1; shift; P=${@:-$(echo $S | cut -c1-3)}
cd /verif
git -C /repo apply /verif/seeded/$S/patch.diff || { echo "$S: patch does not apply"; exit 9; }
for p in $P; do
  out=$(./check $p --no-evidence 2>&1); rc=$?
  echo "$S $p rc=$rc $(echo "$out" | grep -c '^VIOLATION') violation lines; $(echo "$out" | grep '^    - ' | head -3 | cut -c1-160 | tr '\n' '|')"
done
git -C /repo checkout -- .
