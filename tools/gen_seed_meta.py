#!/usr/bin/env python3
"""Write /verif/seeded/<seed>/meta.json from the seed's README.md (written by the seeding sub-agent), patch.diff,
verify.json (tools/verify_seed.sh) and the line of seeded/MATRIX.txt (tools/seed_matrix.sh)."""
import json, os, re, glob
V = os.path.dirname(os.path.dirname(os.path.abspath(__file__)))
matrix = {}
try:
    for l in open(os.path.join(V, "seeded", "MATRIX.txt")):
        p = l.split()
        if len(p) >= 3:
            matrix[p[0]] = l.strip()
except OSError:
    pass
for d in sorted(glob.glob(os.path.join(V, "seeded", "C[0-9][0-9][ab]"))):
    s = os.path.basename(d)
    readme = open(os.path.join(d, "README.md"), errors="replace").read() if os.path.exists(os.path.join(d, "README.md")) else ""
    title = next((l.lstrip("# ").strip() for l in readme.splitlines() if l.startswith("#")), "")
    m = re.search(r"^##+\s*(What is needed[^\n]*|What it takes[^\n]*|What it needs[^\n]*|Needed[^\n]*|When it manifests[^\n]*|Manifest[^\n]*)\n(.*?)(?=^##+\s|\Z)", readme, re.S | re.M | re.I)
    needs = re.sub(r"\s+", " ", m.group(2)).strip()[:1500] if m else ""
    files = re.findall(r"^\+\+\+ b/(\S+)", open(os.path.join(d, "patch.diff")).read(), re.M)
    ver = {}
    if os.path.exists(os.path.join(d, "verify.json")):
        ver = json.load(open(os.path.join(d, "verify.json")))
    ml = matrix.get(s, "")
    mm = re.search(r"rc=(\d+) violations=(\d+) :: (.*?) :: (.*)$", ml)
    caught = bool(mm and mm.group(1) == "1" and int(mm.group(2)) > 0)
    meta = {"seed": s, "property": s[:3], "title": title, "files_changed": files,
            "needs_to_manifest": needs,
            "independent_verification": {"how": "tools/verify_seed.sh in a scratch worktree of /repo HEAD: demo on the unmodified tree must pass, patch must apply and build, demo must fail with the change, ./xcmtest -c -v -p 8 must show no failure beyond the offline/flaky list of /root/.vp/BASELINE.json (failures re-run alone twice)", **ver},
            "check_run": {"how": "tools/seed_matrix.sh: patch applied to a scratch worktree, ./check %s (quick tier) against it" % s[:3],
                          "caught": caught, "obligations": mm.group(3).strip() if mm else "", "first_assertions": mm.group(4).strip() if mm else "", "raw": ml}}
    json.dump(meta, open(os.path.join(d, "meta.json"), "w"), indent=1)
    print(s, "caught" if caught else "MISSED" if ml else "not run", "verified" if ver.get("verified") else "NOT-VERIFIED")
