#!/bin/bash
# seed_try.sh <dir-with-seed-dirs> <seed>...: like seed_matrix.sh for seeds not (yet) imported; prints one line per seed, keeps nothing.
SD=$1; shift
WT=/tmp/seedwt_$$; cd /verif
git -C /repo worktree add --detach $WT HEAD >/dev/null 2>&1 || exit 9
cp /repo/common/config.h $WT/common/config.h; cp /repo/include/xcm_version.h $WT/include/xcm_version.h
for S in "$@"; do
  P=$(echo $S | cut -c1-3)
  git -C $WT checkout -q -- . ; git -C $WT apply $SD/$S/patch.diff || { echo "$S $P PATCH-DOES-NOT-APPLY"; continue; }
  out=$(VERIF_REPO=$WT VERIF_BUILD=/tmp/seedbuild_$$ ./check $P --no-evidence --jobs ${JOBS:-6} 2>&1); rc=$?
  echo "$S $P rc=$rc violations=$(echo "$out" | grep -c '^VIOLATION') :: $(echo "$out" | grep -E '^  (violated|inconclusive):' | cut -c1-90 | tr '\n' ';') :: $(echo "$out" | grep '^    - ' | head -2 | cut -c1-170 | tr '\n' '|')"
done
git -C /repo worktree remove --force $WT; rm -rf $WT /tmp/seedbuild_$$
