#!/bin/bash
# benign_try.sh <dir-with-patch-dirs> <name>...: apply a behaviour-preserving patch to a scratch worktree and run every quick
# obligation whose harness includes a touched file; any VIOLATION here is a false alarm of the machinery.
SD=$1; shift
WT=/tmp/benwt_$$; cd /verif
git -C /repo worktree add --detach $WT HEAD >/dev/null 2>&1 || exit 9
cp /repo/common/config.h $WT/common/config.h; cp /repo/include/xcm_version.h $WT/include/xcm_version.h
declare -A MAP=( [xcm.c]="core.,attr.tree" [xcm_tp.c]="tp.,btcp.getter,btls.getter,btls.setter" [mbuf.h]="frame." [xcm_tp_tcp.c]="frame.tcp" [xcm_tp_tls.c]="frame.tls"
 [xcm_tp_btcp.c]="btcp." [tcp_attr.c]="btcp." [xcm_tp_btls.c]="btls.,tlsconf." [xcm_tp_ux.c]="ux.,uxf." [xcm_tp_utls.c]="utls." [tconnect.c]="tconnect." [timer_mgr.c]="timer."
 [xpoll.c]="xpoll." [active_fd.c]="locks.,xpoll." [ctl.c]="ctl." [ctx_store.c]="ctxstore.,locks." [attr_path.c]="apath.,attr.tree" [attr_tree.c]="attr.tree" [attr_node.c]="attr.tree"
 [xcm_attr_map.c]="amap." [xcm_addr.c]="addr." [xcm_dns_cares.c]="dns." [xrelay.c]="relay." [rserver.c]="relay." [common_tp.c]="addr.conv" [xcm_addr_compat.c]="addr.compat" [common_ctl.c]="ctl.create_path" )
for S in "$@"; do
  git -C $WT checkout -q -- . ; git -C $WT apply $SD/$S/patch.diff || { echo "$S PATCH-DOES-NOT-APPLY"; continue; }
  only=""
  for f in $(grep '^+++ b/' $SD/$S/patch.diff | sed 's|^+++ b/||'); do b=$(basename $f); [ -n "${MAP[$b]}" ] && only="$only,${MAP[$b]}"; done
  only=${only#,}
  [ -z "$only" ] && { echo "$S no-harness-for-touched-files"; continue; }
  out=$(VERIF_REPO=$WT VERIF_BUILD=/tmp/benbuild_$$ ./check ANY --only "$only" --no-evidence --jobs ${JOBS:-6} 2>&1); rc=$?
  echo "$S [$only] rc=$rc violations=$(echo "$out" | grep -c '^VIOLATION') :: $(echo "$out" | grep -E '^  (violated|inconclusive):' | cut -c1-90 | tr '\n' ';') :: $(echo "$out" | grep '^    - ' | head -3 | cut -c1-200 | tr '\n' '|') :: $(echo "$out" | tail -1 | cut -c1-120)"
done
git -C /repo worktree remove --force $WT; rm -rf $WT /tmp/benbuild_$$
