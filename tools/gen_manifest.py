#!/usr/bin/env python3
"""Regenerate /verif/MANIFEST.json from obligations.py (claimed properties = those with obligations)."""
import json, os, sys
V = os.path.dirname(os.path.dirname(os.path.abspath(__file__)))
sys.path.insert(0, V)
import obligations as OB
props = [json.loads(l) for l in open(os.path.join(V, "properties.jsonl"))]
claimed = sorted(set(p for o in OB.OBLIGATIONS for p in o["props"]))
checks, na = [], []
for p in props:
    pid = p["id"]
    meta = OB.PROPERTY_META.get(pid, {})
    if pid in claimed and not meta.get("not_applicable"):
        n_q = len([o for o in OB.OBLIGATIONS if pid in o["props"] and o["tier"] == "quick"])
        n_t = len([o for o in OB.OBLIGATIONS if pid in o["props"] and not o.get("quick_only")])
        checks.append({
            "property_id": pid,
            "quick_cmd": "./check %s --tier quick" % pid,
            "thorough_cmd": "./check %s --tier thorough" % pid,
            "evidence_file": "/verif/evidence/%s.json" % pid,
            "replay_cmd_template": "./check %s --replay {path}" % pid,
            "engine": "cbmc-driver",
            "level_claimed": {"category": meta.get("level", "model_checking"),
                              "text": meta.get("level_text", "Bounded model checking (CBMC) of the real translation units: every assertion is decided by the SAT solver for all symbolic inputs, pre-states and lower-layer behaviours within the stated bounds; %d quick / %d thorough obligations." % (n_q, n_t)),
                              "design_ref": meta.get("design_ref", "DESIGN.md section 3, " + pid)},
            "level_note": meta.get("level_note", "Trusted: CBMC 6.11, the contract stubs of the layer below the code under test (DESIGN.md section 2), the representation invariants being inductive (checked) and the bounds given in the evidence file."),
            "technique": meta.get("technique", "solver-based bounded symbolic execution of the real C code (CBMC + SAT), inductive step from arbitrary invariant state"),
        })
    else:
        na.append({"property_id": pid, "reason": meta.get("not_applicable", "check not built yet (work in progress)")})
m = {"version": 1,
     "setup_cmd": "true",
     "hooks": {"guard": "XCM_VERIF", "enable": "no hooks needed: harnesses #include the real .c files by include path, statics are reached directly",
               "baseline_off_cmd": "cd /repo && make -j8 && make -j8 xcmtest && ./xcmtest -c -v -p 8", "source_commits": [], "add_only": True},
     "engines": [{"name": "cbmc-driver", "path": "/verif/check", "serves_properties": claimed,
                  "kind_free_text": "CBMC 6.11 bounded symbolic execution of the real translation units of /repo (goto-cc with the repository's flags), SAT-decided assertions, witness (reachability) twins, concrete re-execution of counterexamples"}],
     "checks": checks,
     "notes": "See DESIGN.md. Exit codes of ./check: 0 discharged, 1 violation (VIOLATION line), 2 inconclusive (timeout/oom/vacuous/bound too small). Known findings: /verif/known_findings.json.",
     "not_applicable": na}
json.dump(m, open(os.path.join(V, "MANIFEST.json"), "w"), indent=1)
print("claimed:", claimed, "not claimed:", [x["property_id"] for x in na])
