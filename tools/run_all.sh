#!/bin/bash
# run every claimed check (quick tier by default) and summarise
cd /verif
TIER=${1:-quick}
for p in $(python3 -c "import json;print(' '.join(c['property_id'] for c in json.load(open('MANIFEST.json'))['checks']))"); do
  s=$(date +%s); out=$(./check $p --tier $TIER 2>&1); rc=$?; e=$(date +%s)
  echo "$p rc=$rc $((e-s))s :: $(echo "$out" | tail -1 | cut -c1-160)"
  [ $rc != 0 ] && echo "$out" | grep "violated:\|inconclusive:\|    - " | head -8 | cut -c1-220
done
