#!/bin/bash
# import_seed.sh <PROP> <src letter> [<dst letter>]: copy a sub-agent's deliverable from $SEED_OUT (default /tmp/seed_out)/<PROP>/<src> into /verif/seeded/<PROP><dst>/
P=$1; X=$2; Y=${3:-$2}; SRC=${SEED_OUT:-/tmp/seed_out}/$P/$X; DST=/verif/seeded/$P$Y
mkdir -p $DST; cp -r $SRC/* $DST/; rm -f $DST/out_*.txt $DST/demo_a $DST/demo_b
if [ -f $DST/demo.sh ]; then printf '#!/bin/sh\nexec "$(dirname "$0")/demo.sh" "$1"\n' > $DST/run_demo.sh
elif [ -f $DST/run.sh ]; then printf '#!/bin/sh\nexec "$(dirname "$0")/run.sh" "$1"\n' > $DST/run_demo.sh
else cat > $DST/run_demo.sh <<'EOS'
#!/bin/sh
# usage: run_demo.sh <built xcm tree>; exit 0 = property holds
T=$1; D=$(cd "$(dirname "$0")" && pwd); O=$(mktemp -d); trap 'rm -rf "$O"' EXIT
gcc -std=gnu99 -O1 -g -Wall -I"$T/include" -o "$O/demo" "$D/demo.c" -L"$T/.libs" -lxcm -lpthread || exit 2
LD_LIBRARY_PATH="$T/.libs" "$O/demo"
EOS
fi
chmod +x $DST/*.sh
