#!/bin/bash
# verify every seed under /verif/seeded that has no verify.json yet (sequentially)
for d in /verif/seeded/*/; do
  [ -f $d/verify.json ] && continue
  /verif/tools/verify_seed.sh $d
  echo "$(basename $d): $(tail -1 $d/verify.log)"
done
