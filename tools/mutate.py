#!/usr/bin/env python3
"""mutate.py: systematic gap-finding for the checks (development aid, not a registered check).

For each source file given, generate small syntactic mutants (relational/logical operator flips,
statement deletions, constant and errno swaps) of lines inside function bodies, apply each to a
scratch worktree of /repo (never /repo itself) and run every quick obligation whose harness
includes that file (./check ANY --only ...).  A mutant no obligation reports is a SURVIVOR:
either it is equivalent / outside the 20 properties, or it shows behaviour no assertion pins down.
Survivors are what is worth reading; results go to /verif/seeded/mutation/<file>.jsonl.

usage: mutate.py [--n 20] [--seed 1] [--workers 2] [--jobs 4] file...
"""
import argparse, json, os, random, re, subprocess, sys, concurrent.futures, threading

MAP = {"xcm.c": "core.,attr.tree", "xcm_tp.c": "tp.", "mbuf.h": "frame.", "xcm_tp_tcp.c": "frame.tcp", "xcm_tp_tls.c": "frame.tls",
       "xcm_tp_btcp.c": "btcp.", "tcp_attr.c": "btcp.", "xcm_tp_btls.c": "btls.,tlsconf.", "xcm_tp_ux.c": "ux.,uxf.", "xcm_tp_utls.c": "utls.",
       "tconnect.c": "tconnect.", "timer_mgr.c": "timer.", "xpoll.c": "xpoll.", "active_fd.c": "locks.,xpoll.", "ctl.c": "ctl.",
       "ctx_store.c": "ctxstore.,locks.", "attr_path.c": "apath.,attr.tree", "attr_tree.c": "attr.tree", "attr_node.c": "attr.tree",
       "xcm_attr_map.c": "amap.", "xcm_addr.c": "addr.", "xcm_dns_cares.c": "dns.", "xrelay.c": "relay.", "rserver.c": "relay.",
       "common_tp.c": "addr.conv", "xcm_addr_compat.c": "addr.compat", "common_ctl.c": "ctl.create_path", "dns_attr.c": "btcp.",
       "item.c": "ctxstore.,btls.setter,btls.getter", "slist.c": "btls.setter", "cert.c": "btls.getter", "xcm_dns.c": "addr."}

SKIP = re.compile(r"LOG_|log_|ut_assert|UT_|^\s*#|^\s*/?\*|^\s*//|lttng|tracepoint|static const char|^\s*$")
REL = [(r"(?<![<>=!\-])<=(?!=)", "<"), (r"(?<![<>=!\-])>=(?!=)", ">"), (r"(?<![<\-=!>])<(?![<=])", "<="), (r"(?<![>\-=!<])>(?![>=])", ">="),
       (r"==", "!="), (r"!=", "=="), (r"&&", "||"), (r"\|\|", "&&")]
CONST = [(r"\btrue\b", "false"), (r"\bfalse\b", "true"), (r"\+ 1\b", "+ 0"), (r"- 1\b", "- 0"), (r"return -1;", "return 0;"), (r"return 0;", "return -1;"),
         (r"\bEAGAIN\b", "EINTR"), (r"\bEPIPE\b", "ECONNRESET"), (r"\bEPROTO\b", "EINVAL"), (r"\bEINVAL\b", "ENOENT"), (r"\bENOENT\b", "EINVAL"),
         (r"\bEOVERFLOW\b", "EINVAL"), (r"\bEACCES\b", "EINVAL"), (r"\bEMSGSIZE\b", "EINVAL"), (r"\bETIMEDOUT\b", "ECONNREFUSED"),
         (r"\+=", "="), (r"-=", "="), (r"\+\+", "--"), (r"!(?=[a-zA-Z_(])", "")]
STMT = re.compile(r"^\s+[A-Za-z_\(\*][^;{}]*;\s*$")
DECL = re.compile(r"^\s+(const\s+|static\s+|struct\s+|unsigned\s+|enum\s+)*(int|char|bool|size_t|ssize_t|int64_t|uint\w+_t|double|void|socklen_t|struct \w+|\w+_t)\s+\**\w+(\[\w*\])?\s*(=|;)")


def gen(path, n, rng):
    lines = open(path).read().split("\n")
    depth, cand = 0, []
    for i, l in enumerate(lines):
        d0 = depth
        depth += l.count("{") - l.count("}")
        if d0 <= 0 or SKIP.search(l):
            continue
        for pat, rep in REL + CONST:
            for m in re.finditer(pat, l):
                cand.append((i, "sub", l[:m.start()] + rep + l[m.end():], "%s -> %s" % (m.group(0), rep or "<removed>")))
        if STMT.match(l) and not DECL.match(l) and "return" not in l and "goto" not in l and "break" not in l:
            cand.append((i, "del", re.match(r"^\s*", l).group(0) + ";", "statement deleted"))
    rng.shuffle(cand)
    # spread over lines: at most 2 mutants per line
    per, out = {}, []
    for c in cand:
        if per.get(c[0], 0) >= 2:
            continue
        per[c[0]] = per.get(c[0], 0) + 1
        out.append(c)
        if len(out) >= n:
            break
    return lines, out


def run_mutant(w, rel, lines, mut, only, jobs):
    wt = "/tmp/mutwt_%d" % w
    i, kind, new, what = mut
    src = os.path.join(wt, rel)
    ml = list(lines)
    ml[i] = new
    open(src, "w").write("\n".join(ml))
    env = dict(os.environ, VERIF_REPO=wt, VERIF_BUILD="/tmp/mutbuild_%d" % w, VERIF_NOTRACE="1", VERIF_FAILFAST="1")
    try:
        p = subprocess.run(["./check", "ANY", "--only", only, "--no-evidence", "--jobs", str(jobs)], cwd="/verif", env=env, capture_output=True, text=True, timeout=3600)
        out, rc = p.stdout + p.stderr, p.returncode
    except subprocess.TimeoutExpired:
        out, rc = "timeout", 3
    open(src, "w").write("\n".join(lines))
    viol = re.findall(r"^  violated: (\S+)", out, re.M)
    first = re.findall(r"^    - (.*)$", out, re.M)[:2]
    incon = re.findall(r"^  inconclusive: (\S+): (\S+)", out, re.M)
    invalid = "goto-cc failed" in out
    status = "invalid" if invalid else ("killed" if viol else ("survived" if rc == 0 else "inconclusive"))
    return {"file": rel, "line": i + 1, "orig": lines[i].strip(), "mutant": new.strip(), "op": what, "status": status, "rc": rc,
            "killed_by": viol[:3], "assertions": [f[:160] for f in first], "inconclusive": ["%s:%s" % x for x in incon][:4]}


def main():
    ap = argparse.ArgumentParser()
    ap.add_argument("files", nargs="+")
    ap.add_argument("--n", type=int, default=20)
    ap.add_argument("--seed", type=int, default=1)
    ap.add_argument("--workers", type=int, default=2)
    ap.add_argument("--jobs", type=int, default=4)
    a = ap.parse_args()
    rng = random.Random(a.seed)
    for w in range(a.workers):
        wt = "/tmp/mutwt_%d" % w
        subprocess.run(["git", "-C", "/repo", "worktree", "remove", "--force", wt], capture_output=True)
        subprocess.run(["rm", "-rf", wt])
        subprocess.run(["git", "-C", "/repo", "worktree", "add", "--detach", wt, "HEAD"], capture_output=True, check=True)
        subprocess.run(["cp", "/repo/common/config.h", wt + "/common/config.h"])
        subprocess.run(["cp", "/repo/include/xcm_version.h", wt + "/include/xcm_version.h"])
    os.makedirs("/verif/seeded/mutation", exist_ok=True)
    free = list(range(a.workers))
    lock = threading.Lock()

    def task(rel, lines, mut, only):
        with lock:
            w = free.pop()
        try:
            return run_mutant(w, rel, lines, mut, only, a.jobs)
        finally:
            with lock:
                free.append(w)

    for rel in a.files:
        only = MAP.get(os.path.basename(rel))
        if not only:
            print("no harness map for", rel)
            continue
        lines, muts = gen(os.path.join("/repo", rel), a.n, rng)
        outp = "/verif/seeded/mutation/%s.seed%d.jsonl" % (os.path.basename(rel), a.seed)
        with concurrent.futures.ThreadPoolExecutor(max_workers=a.workers) as ex, open(outp, "w") as fo:
            for r in ex.map(lambda m: task(rel, lines, m, only), muts):
                fo.write(json.dumps(r) + "\n")
                fo.flush()
                print("%-9s %s:%d  %s   [%s]  %s" % (r["status"], os.path.basename(rel), r["line"], r["op"], r["orig"][:70], ",".join(r["killed_by"])[:60]), flush=True)
    for w in range(a.workers):
        wt = "/tmp/mutwt_%d" % w
        subprocess.run(["git", "-C", "/repo", "worktree", "remove", "--force", wt], capture_output=True)
        subprocess.run(["rm", "-rf", wt, "/tmp/mutbuild_%d" % w])


if __name__ == "__main__":
    main()
