#!/bin/bash
# mut_one.sh <file relative to repo> <sed expression> <only-list>: apply one hand-written mutation to a scratch worktree and run the named obligations (development aid)
REL=$1; EXPR=$2; ONLY=$3; WT=/tmp/m1wt_$$; cd /verif
git -C /repo worktree add --detach $WT HEAD >/dev/null 2>&1 || exit 9
cp /repo/common/config.h $WT/common/config.h; cp /repo/include/xcm_version.h $WT/include/xcm_version.h
sed -i "$EXPR" $WT/$REL; git -C $WT diff | grep '^[+-]' | grep -v '^+++\|^---'
VERIF_REPO=$WT VERIF_BUILD=/tmp/m1b_$$ VERIF_NOTRACE=1 ./check ANY --only "$ONLY" --no-evidence --jobs ${JOBS:-6} 2>&1 | grep -E "violated:|inconclusive:|    - |^ANY" | cut -c1-230
git -C /repo worktree remove --force $WT; rm -rf $WT /tmp/m1b_$$
