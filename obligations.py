"""Obligation table: which harness x configuration decides which property.

Each obligation: name, harness (relative to harness/), defs, unwind, unwindset,
props (property ids it serves), tier ('quick' = both tiers, 'thorough' = only
in the thorough tier), desc.  quick_only=True drops it from the thorough tier
(when a deeper twin replaces it)."""

OBLIGATIONS = []
PROPERTY_META = {}


def ob(name, harness, defs, props, tier="quick", unwind=8, unwindset=None, desc="", **kw):
    d = dict(name=name, harness=harness, defs=defs, props=props, tier=tier, unwind=unwind,
             unwindset=unwindset or [], desc=desc)
    d.update(kw)
    OBLIGATIONS.append(d)


# --------------------------------------------------------------------------
# framing layer: xcm_tp_tcp.c / xcm_tp_tls.c over the BYTESTREAM contract
# --------------------------------------------------------------------------
FRAME_PROPS = {
    "SEND": ["C01", "C03", "C06", "C07", "C17"],
    "RECV": ["C01", "C06", "C07", "C17"],
    "FINISH": ["C01", "C03", "C04", "C06", "C17"],
    "UPDATE": ["C04", "C16"],
    "INIT": ["C01", "C17"],
}
FRAME_DESC = {
    "SEND": "one %s_send from an arbitrary INV_frame state, any message, lower layer accepts any part / EAGAIN / hard error",
    "RECV": "one %s_receive from an arbitrary INV_frame state, arbitrary peer byte stream and fragmentation, any capacity",
    "FINISH": "one %s_finish from an arbitrary INV_frame state",
    "UPDATE": "one %s_update from an arbitrary INV_frame state and awaited condition",
    "INIT": "%s_init establishes INV_frame",
}
for tu, tudef in (("tcp", []), ("tls", ["-DTU_TLS"])):
    for op in ("SEND", "RECV", "FINISH", "UPDATE", "INIT"):
        ob("frame.%s.%s.content6" % (tu, op.lower()), "frame/frame.c", tudef + ["-DOP_" + op, "-DLMAX=6"], FRAME_PROPS[op],
           unwind=16, unwindset=["try_finish_send.0:5"], quick_only=(op in ("SEND", "RECV", "FINISH")),
           desc=(FRAME_DESC[op] % tu) + "; content tier, payload <= 6 bytes, <= 2 partial writes per flush")
    for op in ("SEND", "RECV", "FINISH"):
        ob("frame.%s.%s.content8" % (tu, op.lower()), "frame/frame.c", tudef + ["-DOP_" + op, "-DLMAX=8", "-DKMAX=3"], FRAME_PROPS[op],
           tier="thorough", unwind=18, unwindset=["try_finish_send.0:6"],
           desc=(FRAME_DESC[op] % tu) + "; content tier, payload <= 8 bytes, <= 3 partial writes per flush")

    for op in ("SEND", "RECV", "FINISH"):
        ob("frame.%s.%s.len" % (tu, op.lower()), "frame/frame.c", tudef + ["-DOP_" + op, "-DLEN_TIER", "-DLMAX=6"], FRAME_PROPS[op],
           tier="thorough", unwind=16, unwindset=["try_finish_send.0:5"], timeout=2400,
           desc=(FRAME_DESC[op] % tu) + "; LENGTH tier: every payload length 0..65535 (and beyond), positions/lengths/counters exact, copies of more than 8 bytes move no content (ranges still bounds-checked)")

for tu, tudef in (("tcp", []), ("tls", ["-DTU_TLS"])):
    ob("frame.%s.misc" % tu, "frame/misc.c", tudef, ["C10", "C11", "C12", "C17"], unwind=12, unwindset=["strcmp.0:8", "strcpy.0:8", "strlen.0:8"],
       desc="%s_get_remote_addr/get_local_addr/set_local_addr/max_msg/get_cnt/attr_populate over a sub-socket that reports an address or none: no crash, the sub-socket's address in this transport's spelling, xcm.local_addr converted and handed down exactly once with the sub-socket's verdict, every counter attribute reports its own counter" % tu)

_frame_assumptions = [
    "BYTESTREAM contract of the lower socket (btcp/btls): send(len>0) accepts 1..len leading bytes or fails with EAGAIN or a hard errno; receive(cap>0) delivers 1..cap next stream bytes, 0 (EOF) or -1; after a hard error no further call succeeds",
    "content tier: payloads <= LMAX bytes with symbolic bytes; legal announced lengths LMAX+1..65535 are covered for positions/lengths only by the length tier",
    "heap objects of the two frame buffers have the fixed modelled size 4+LMAX (65539 in the length tier); the logical capacity (wire_capacity) is enforced by an explicit check on every modelled write",
    "logging disabled (run-time default), allocation never fails (upstream policy: abort on exhaustion)",
    "receive capacity >= 1",
]
for p in ("C01", "C03", "C06", "C07", "C17"):
    PROPERTY_META.setdefault(p, {"assumptions": [], "trusted_base": []})
    PROPERTY_META[p]["assumptions"] += _frame_assumptions

# --------------------------------------------------------------------------
# libxcm/core/xcm.c: blocking loops and non-blocking pass-through over a
# MESSAGING/BYTESTREAM contract mock and an interruptible poll() stub
# --------------------------------------------------------------------------
CORE = {
    "MSEND_B": (["C01", "C03", "C04", "C06"], "blocking xcm_send, messaging: same message on every retry, accepted at most once, -1/EINTR only before acceptance, returns after finish"),
    "BSEND_B": (["C02", "C03", "C04", "C06"], "blocking xcm_send, byte stream: retries continue after the accepted bytes, return value = bytes accepted, failure only if none"),
    "RECV_B": (["C01", "C02", "C04", "C06"], "blocking xcm_receive: awaits RECEIVABLE, passes buffer/capacity/result through, never EAGAIN"),
    "SETBLOCK": (["C04"], "xcm_set_blocking(true) finishes outstanding work first"),
    "NB": (["C05", "C04", "C16", "C01", "C02"], "every public data-path call on a non-blocking socket: exactly one transport call, no poll()"),
}
for op, (props, desc) in CORE.items():
    ob("core.%s" % op.lower(), "core/core.c", ["-DOP_" + op, "-DRMAX=2"], props, unwind=8, quick_only=True,
       desc=desc + "; transport answers EAGAIN <= 2 times and <= 2 partial writes, poll() may be interrupted at every call")
    ob("core.%s.r4" % op.lower(), "core/core.c", ["-DOP_" + op, "-DRMAX=4"], props, tier="thorough", unwind=12,
       desc=desc + "; transport answers EAGAIN <= 4 times and <= 4 partial writes, poll() may be interrupted at every call")
_core_assumptions = [
    "xcm.c over a contract mock of the transport (xcm_tp_socket_send/receive/finish/update): MESSAGING send = accepted once (0) or refused (-1 EAGAIN / hard errno); BYTESTREAM send = 1..len leading bytes or -1",
    "poll() stub: returns 1 (readable) or -1/EINTR at the solver's choice at every call; it is the only blocking primitive in xcm.c",
    "bounded liveness: the mock stops answering EAGAIN after RMAX rounds (unwinding assertions prove the loops then end)",
]
for p in ("C01", "C02", "C03", "C04", "C05"):
    PROPERTY_META.setdefault(p, {"assumptions": [], "trusted_base": []})
    PROPERTY_META[p]["assumptions"] += _core_assumptions

# --------------------------------------------------------------------------
# C12: xcm_addr.c + xcm_dns.c over the LIBC-STR models
# --------------------------------------------------------------------------
HP = ["tcp", "tls", "utls", "sctp", "btcp", "btls"]
US = "--unwindset"
for pr in HP:
    n = 7 if pr == "tcp" else 5
    ob("addr.parse.%s.n%d" % (pr, n), "addr/addr.c", ["-DOP_PARSE_HP", '-DPROTO="%s"' % pr, "-DPFUN=xcm_addr_parse_" + pr, "-DNTAIL=%d" % n], ["C12"],
       unwind=18, unwindset=["strcmp.0:34", "strncpy.0:42"], quick_only=True,
       desc="xcm_addr_parse_%s on '%s:' followed by %d arbitrary bytes: accept <=> documented syntax (reference parser), host/port values" % (pr, pr, n))
    ob("addr.parse.%s.n10" % pr, "addr/addr.c", ["-DOP_PARSE_HP", '-DPROTO="%s"' % pr, "-DPFUN=xcm_addr_parse_" + pr, "-DNTAIL=10"], ["C12"],
       tier="thorough", unwind=18, unwindset=["strcmp.0:34", "strncpy.0:42"], timeout=2400,
       desc="xcm_addr_parse_%s on '%s:' followed by 10 arbitrary bytes" % (pr, pr))
    ob("addr.valid.%s.n4" % pr, "addr/addr.c", ["-DOP_VALID_HP", '-DPROTO="%s"' % pr, "-DPFUN=xcm_addr_parse_" + pr, "-DNTAIL=4"], ["C12"],
       tier="thorough", unwind=18, unwindset=["strcmp.0:34", "strncpy.0:42"], timeout=2400,
       desc="xcm_addr_is_valid agrees with xcm_addr_parse_%s on '%s:' + 4 arbitrary bytes" % (pr, pr))
for pr, q in (("tcp", "quick"), ("btls", "thorough")):
    ob("addr.parse.%s.port12" % pr, "addr/addr.c", ["-DOP_PARSE_HP", "-DFIXHOST", '-DPROTO="%s"' % pr, "-DPFUN=xcm_addr_parse_" + pr, "-DNTAIL=14"], ["C12"], tier=q,
       unwind=22, unwindset=["strcmp.0:34", "strncpy.0:42"], timeout=1500,
       desc="xcm_addr_parse_%s on '%s:a:' followed by 12 arbitrary bytes: port fields of up to 12 characters (values beyond 2^32 included) are accepted only as 1-5 decimal digits <= 65535" % (pr, pr))
for pr in ("tcp", "btls"):
    for kind, kn in ((0, "name"), (1, "ipv4"), (2, "ipv6")):
        if pr == "btls" and kind != 2:
            continue
        ob("addr.make.%s.%s" % (pr, kn), "addr/addr.c", ["-DOP_MAKE_HP", "-DKIND=%d" % kind, "-DIP6_TEXT_MAX=8", '-DPROTO="%s"' % pr, "-DPFUN=xcm_addr_parse_" + pr, "-DMFUN=xcm_addr_make_" + pr], ["C12"],
           unwind=27, unwindset=["strcmp.0:34", "strncpy.0:42"],
           desc="xcm_addr_make_%s, %s host, all 65536 ports, every capacity 0..len+2: 0 <=> complete address fits, content exact, nothing written past capacity" % (pr, kn))
        if pr == "btls":
            continue      # same host/port code as tcp; the per-transport part is the prefix (addr.make.btls.ipv6, addr.parse.btls.*)
        ob("addr.roundtrip.%s.%s" % (pr, kn), "addr/addr.c", ["-DOP_MAKE_HP", "-DROUNDTRIP", "-DKIND=%d" % kind, "-DIP6_TEXT_MAX=8", '-DPROTO="%s"' % pr, "-DPFUN=xcm_addr_parse_" + pr, "-DMFUN=xcm_addr_make_" + pr], ["C12"],
           tier="thorough", unwind=27, unwindset=["strcmp.0:34", "strncpy.0:42"], timeout=3000,
           desc="parse(make(x)) = x for %s, %s host, all 65536 ports%s" % (pr, kn, " (IPv4: first and last octet arbitrary, middle octets fixed)" if kind == 1 else ""))
for pr in ("ux", "uxf"):
    ob("addr.parse.%s.n8" % pr, "addr/addr.c", ["-DOP_PARSE_UX", '-DPROTO="%s"' % pr, "-DPFUN=xcm_addr_parse_" + pr, "-DNTAIL=8"], ["C12"],
       unwind=18, unwindset=["strcmp.0:34"], desc="xcm_addr_parse_%s on '%s:' + 8 arbitrary bytes, every capacity" % (pr, pr))
    ob("addr.make.%s" % pr, "addr/addr.c", ["-DOP_MAKE_UX", '-DPROTO="%s"' % pr, "-DPFUN=xcm_addr_parse_" + pr, "-DMFUN=xcm_addr_make_" + pr], ["C12"],
       unwind=18, unwindset=["strcmp.0:34"], desc="xcm_addr_make_%s, names <= 6 bytes, every capacity, round trip" % pr)
    ob("addr.valid.%s.n8" % pr, "addr/addr.c", ["-DOP_PARSE_UX", "-DWITH_VALID", '-DPROTO="%s"' % pr, "-DPFUN=xcm_addr_parse_" + pr, "-DNTAIL=8"], ["C12"],
       tier="thorough", unwind=18, unwindset=["strcmp.0:34", "strncpy.0:42"], timeout=2400, desc="xcm_addr_is_valid agrees with the documented %s syntax" % pr)
ob("addr.parse.ux.n110", "addr/addr.c", ["-DOP_PARSE_UX", '-DPROTO="ux"', "-DPFUN=xcm_addr_parse_ux", "-DNTAIL=110"], ["C12"],
   unwind=116, desc="xcm_addr_parse_ux on names up to 110 bytes (limit 107/108), every capacity 0..112")
for pr in ("ux", "uxf"):
    for L in (106, 107, 108):
        ob("addr.valid.%s.len%d" % (pr, L), "addr/addr.c", ["-DOP_VALID_UXLEN", '-DUXNAME="%s"' % ("a" * L), '-DPROTO="%s"' % pr, "-DPFUN=xcm_addr_parse_" + pr], ["C12"],
           unwind=124, unwindset=["strcmp.0:34"],
           desc="xcm_addr_is_valid agrees with xcm_addr_parse_%s for a name of %d bytes (limit 107)" % (pr, L))
ob("addr.make.uxf.n110", "addr/addr.c", ["-DOP_MAKE_UX", "-DNAMEMAX=110", '-DPROTO="uxf"', "-DPFUN=xcm_addr_parse_uxf", "-DMFUN=xcm_addr_make_uxf"], ["C12"],
   unwind=124, desc="xcm_addr_make_uxf with names up to 110 bytes, every capacity, round trip")
ob("addr.proto.n8", "addr/addr.c", ["-DOP_PROTO", "-DNTAIL=8"], ["C12"], unwind=18, desc="xcm_addr_parse_proto on 8 arbitrary bytes, every capacity 0..10")
ob("addr.conv", "addr/conv.c", ["-DOP_CONV"], ["C12"], unwind=6, inc=["libxcm/tp/common", "libxcm/core"],
   desc="the eight GEN_ADDR_CONV rewrites (btcp<->tcp, btcp<->btls, btls<->tls, utls<->tls) over parser/formatter mocks: source transport's parser, target transport's formatter, host/port/buffer/capacity unchanged, failure of either is failure with its errno (no truncated success)")
ob("addr.compat", "addr/conv.c", ["-DOP_COMPAT"], ["C12"], unwind=6, inc=["libxcm/tp/common", "libxcm/core"],
   desc="xcm_addr_compat.c: <proto>6_parse/_parse/6_make and the UX wrappers delegate unchanged; IP-only variants refuse names, IPv4-only variants refuse IPv6, with EINVAL")
PROPERTY_META["C12"] = {
    "jobs_thorough": 5,
    "prechecks": [{"name": "libc_str models vs glibc (strtol, inet_pton/ntop, snprintf, isspace) and vs the repository's xcm_dns_is_valid_name",
                   "cmds": ["gcc -O1 -w -D_GNU_SOURCE -DUT_STD_ASSERT -I{VERIF}/harness/common -I{REPO}/include -I{REPO}/libxcm/tp/dns -I{REPO}/common -I{REPO}/libxcm/core -I{REPO}/libxcm/tp/common -o {BUILD}/validate_libc {VERIF}/tools/validate_libc_models.c {REPO}/libxcm/tp/dns/xcm_dns.c {REPO}/common/util.c -lpthread",
                            "{BUILD}/validate_libc 30000"]}],
    "assumptions": [
        "LIBC-STR models of strtol/inet_pton(AF_INET)/inet_ntop(AF_INET)/snprintf(%s %c %d)/isspace and an automaton for the DNS-name regular expression (validated differentially against glibc on every run: all strings up to length 5 over a structural alphabet + random longer ones)",
        "IPv6 text form is opaque: inet_ntop yields an arbitrary token of 2..8 (quick) characters, inet_pton is an arbitrary but deterministic function that inverts it",
        "parser input = transport prefix + N arbitrary bytes (N in the obligation name); UX/UXF names up to 110 bytes",
        "ntohs/htons given an int-sized result (CBMC does not apply default argument promotions to uint16_t varargs)",
    ],
    "trusted_base": ["harness/common/libc_str.h"],
    "bounds": "tail length N per obligation; DNS names <= 5 chars in make; capacities 0..len+2",
    "outside": "host strings of 13..512 bytes with arbitrary structure; real IPv6 text syntax (inside libc)",
}

# --------------------------------------------------------------------------
# C19: xcm_attr_map.c (one operation from an arbitrary map) and attr_path.c
# --------------------------------------------------------------------------
AMAP = {"CREATE": "create yields the empty map; the harness-built arbitrary map is a valid map",
        "ADD": "add / add_<type> of any name, type and value: replaces, byte-exact copy, other names untouched",
        "DEL": "del of any name", "CLONE": "clone: equal, deep, independent under mutation of the clone",
        "EQUAL": "equal on two arbitrary maps = reference equality, symmetric, order-independent",
        "FOREACH": "foreach visits each entry exactly once with the stored data",
        "ADDALL": "add_all merges, source untouched, self add_all is a no-op",
        "DESTROY": "destroy frees everything (memory-leak check)"}
for op, d in AMAP.items():
    ob("amap.%s" % op.lower(), "amap/amap.c", ["-DOP_" + op], ["C19"], unwind=10, flags=["--memory-leak-check"],
       desc="xcm_attr_map: " + d + "; arbitrary map of <= 3 entries over keys {a,b,ab}, five types, bin/str values of 0..3 bytes")
PROPERTY_META["C19"] = {
    "assumptions": ["attribute maps: inductive step from an arbitrary well-formed map of <= 3 entries (keys a, b, ab; values <= 8 bytes), built node by node by the harness; value objects have the fixed modelled size 8",
                    "allocation never fails; ut_strdup/ut_memdup modelled with fixed-size objects"],
    "trusted_base": [], "bounds": "<= 3 entries, 3-key alphabet, values <= 8 bytes (bin/str 0..3)", "outside": "maps with more than 3 entries; values longer than 8 bytes"}
# (the accepted neighbours, e.g. 9223372036854775806, did not finish: the printing model under symbolic execution; the short accepted indices are apath.print.*)
for _nm, _idx, _fits in (("long_max", "9223372036854775807", 0), ("two63", "9223372036854775808", 0),
                         ("ulong_max_1", "18446744073709551614", 0), ("ulong_max", "18446744073709551615", 0)):
    ob("apath.index." + _nm, "apath/apath.c", ["-DOP_INDEX", "-DNSTR=24", '-DIDX="%s"' % _idx, "-DFITS=%d" % _fits], ["C19"], unwind=30,
       desc="the list index [%s] at real table sizes: %s; an accepted index prints as the same digits and the printed form parses to an equal path (64-bit division-free printing model, validated against glibc)" % (_idx, "accepted" if _fits else "rejected (beyond the printable range)"))
for root in (1, 0):
    rn = "root" if root else "relative"
    SC = [("libxcm/core/attr_path.h", "ATTR_PATH_COMP_MAX", 3), ("libxcm/core/attr_path.h", "ATTR_PATH_NAME_MAX", 6), ("libxcm/core/attr_path.c", None, None)]
    ob("apath.parse.real.n7.%s" % rn, "apath/apath.c", ["-DNSTR=7", "-DROOT=%d" % root], ["C19", "C10"], unwind=12,
       desc="attr_path_parse on ALL byte strings of 7 characters (%s path), real table sizes: accepted <=> documented syntax, component count, no memory error, no leak" % rn)
    ob("apath.parse.scaled.n7.%s" % rn, "apath/apath.c", ["-DNSTR=7", "-DROOT=%d" % root], ["C19", "C10"], unwind=12, scaled=SC,
       desc="same on the scaled twin (ATTR_PATH_COMP_MAX 64->3, ATTR_PATH_NAME_MAX 255->6): the component-count and name-length limits are inside the bound (%s path)" % rn)
    ob("apath.parse.comps.n7.%s" % rn, "apath/apath.c", ["-DNSTR=7", "-DROOT=%d" % root], ["C19", "C10"], unwind=12,
       scaled=[("libxcm/core/attr_path.h", "ATTR_PATH_COMP_MAX", 2), ("libxcm/core/attr_path.h", "ATTR_PATH_NAME_MAX", 7), ("libxcm/core/attr_path.c", None, None)],
       desc="scaled twin for the COMPONENT limit (ATTR_PATH_COMP_MAX 64->2, ATTR_PATH_NAME_MAX 255->7): all 7-character strings (%s path); strings with 3 and 4 components stay within the length limit, so it is the component-count check that must refuse them - nothing written past the table" % rn)
    ob("apath.print.scaled.n5.%s" % rn, "apath/apath.c", ["-DNSTR=5", "-DWITH_PRINT", "-DROOT=%d" % root], ["C19"], unwind=10, scaled=SC, quick_only=True,
       desc="parse -> to_str -> parse round trip, attr_path_len, equal_str on all 5-character strings (%s path)" % rn)
    ob("apath.print.scaled.n7.%s" % rn, "apath/apath.c", ["-DNSTR=7", "-DWITH_PRINT", "-DROOT=%d" % root], ["C19"], unwind=12, scaled=SC, tier="thorough", timeout=3000, mem_gb=30,
       desc="parse -> to_str -> parse round trip, attr_path_len, equal_str on all 7-character strings (%s path)" % rn)
    ob("apath.parse.scaled.n9.%s" % rn, "apath/apath.c", ["-DNSTR=9", "-DROOT=%d" % root], ["C19", "C10"], unwind=14, tier="thorough", timeout=2400,
       scaled=[("libxcm/core/attr_path.h", "ATTR_PATH_COMP_MAX", 4), ("libxcm/core/attr_path.h", "ATTR_PATH_NAME_MAX", 8), ("libxcm/core/attr_path.c", None, None)],
       desc="scaled twin (COMP_MAX 4, NAME_MAX 8), all 9-character strings (%s path)" % rn)

# --------------------------------------------------------------------------
# C10: framework half (xcm.c + attr_tree.c + attr_node.c + attr_path.c over worst-case mock getters/setters)
# --------------------------------------------------------------------------
TYPES = ["bool", "int64", "double", "str", "bin"]
for t in TYPES:
    q = "quick" if t in ("bool", "int64", "str") else "thorough"
    ob("attr.tree.get.%s" % t, "attr/tree.c", ["-DOP_GET", "-DATYPE=xcm_attr_type_" + t], ["C10"], unwind=16, tier=q,
       desc="xcm_attr_get on a real tree with a worst-case %s getter, any 3-char name, capacity 0..12: never writes past capacity, EOVERFLOW when too small, length exact" % t)
    ob("attr.tree.set.%s" % t, "attr/tree.c", ["-DOP_SET", "-DATYPE=xcm_attr_type_" + t], ["C10"], unwind=16, tier=q,
       desc="xcm_attr_set on a real tree (%s attribute): unknown -> ENOENT, read-only -> EACCES, wrong type/length -> EINVAL, no setter called in those cases" % t)
    for w, wt in enumerate(TYPES):
        qq = "quick" if (t in ("bool", "int64", "str") and wt in ("bool", "int64", "str")) else "thorough"
        ob("attr.tree.typed.%s.get_%s" % (t, wt), "attr/tree.c", ["-DOP_TYPED", "-DATYPE=xcm_attr_type_" + t, "-DWHICH=%d" % w] + (["-DMATCH"] if t == wt else []), ["C10"], unwind=16, tier=qq,
           desc="xcm_attr_get_%s on a %s attribute into an object of exactly the getter's size: no overflow, ENOENT on type mismatch" % (wt, t))
        ob("attr.tree.typed.%s.getf_%s" % (t, wt), "attr/tree.c", ["-DOP_TYPED", "-DFMT", "-DATYPE=xcm_attr_type_" + t, "-DWHICH=%d" % w] + (["-DMATCH"] if t == wt else []), ["C10"], unwind=16, tier=qq,
           desc="xcm_attr_getf_%s (formatted-name variant) on a %s attribute into an object of exactly the getter's size: no overflow, ENOENT on type mismatch" % (wt, t))
PROPERTY_META["C10"] = {
    "assumptions": ["framework half: the real xcm.c/attr_tree.c/attr_node.c/attr_path.c over a 3-node tree with worst-case mock getters (fixed-size getters ignore the capacity, as several real ones do)",
                    "attr_node.c is compiled with its anonymous union turned into a struct (CBMC 6.11 loses writes through a pointer into a union member; reproducer in DESIGN.md)",
                    "debug-log value formatting (log_attr_str_value) has an empty body",
                    "attribute names: all 3-character strings; path-name limits see the C19 attr_path obligations"],
    "trusted_base": [], "bounds": "names <= 3 chars, capacities 0..12, values 1/8/3 bytes", "outside": "trees deeper than 2 levels; list nodes"}

# --------------------------------------------------------------------------
# btcp: xcm_tp_btcp.c + tcp_attr.c + dns_attr.c (real), xcm_tp.c linked (attribute helpers)
# --------------------------------------------------------------------------
import os as _os, re as _re
_REPO = _os.environ.get("VERIF_REPO", "/repo")


def extract_attrs(relpath):
    """(getter, setter, type) triples from the ATTR_TREE_ADD_RW/RO call sites of a source file (regenerated from /repo on every run)."""
    try:
        txt = open(_os.path.join(_REPO, relpath)).read()
    except OSError:
        return []
    out = []
    for m in _re.finditer(r"ATTR_TREE_ADD_(RW|RO)\s*\(([^;]*?)\)\s*;", txt, _re.S):
        args = [a.strip() for a in m.group(2).replace("\n", " ").split(",")]
        if m.group(1) == "RW" and len(args) == 6:
            out.append((args[5], args[4], args[3]))
        elif m.group(1) == "RO" and len(args) == 5:
            out.append((args[4], None, args[3]))
    seen, res = set(), []
    for g in out:
        if g[0] not in seen:
            seen.add(g[0])
            res.append(g)
    return res


GSIZE = {"xcm_attr_type_bool": 1, "xcm_attr_type_int64": 8, "xcm_attr_type_double": 8, "xcm_attr_type_str": 0, "xcm_attr_type_bin": 0}
BTCP_LINK = ["libxcm/tp/common/xcm_tp.c"]
BT = {
    "SEND": (["C02", "C05", "C06", "C17"], "btcp_send from any connection state: exactly one send(fd, buf, len, MSG_NOSIGNAL), result passed through, counters, terminal states stick, errno remembered"),
    "RECV": (["C02", "C05", "C06", "C17"], "btcp_receive from any connection state: one recv with the caller's buffer, rc <= capacity, EOF -> closed, errors -> bad(errno)"),
    "FINISH": (["C04", "C05", "C06"], "btcp_finish from any connection state"),
    "UPDATE": (["C04", "C16"], "btcp_update (connection): epoll mask = map(awaited condition), bell only for terminal states / completed query"),
    "SERVER_UPDATE": (["C04", "C16"], "btcp_update (server): EPOLLIN on the listen descriptor iff ACCEPTABLE awaited"),
    "SETOPT": (["C11", "C10"], "tcp.keepalive*/tcp.user_timeout setters from any state with a setsockopt that may fail: kernel options of the live descriptor = f(stored options), rejected value changes nothing, full 64-bit values"),
    "ESTABLISH": (["C11", "C13", "C06", "C04", "C05", "C08", "C16"], "one try_establish step from resolving/connecting over DNS and TCONNECT contract mocks: options changed during establishment are applied, resolver list passed on, errnos remembered"),
    "ONCE": (["C11"], "creation-only attributes (dns.*, tcp.connect_timeout, ipv6.scope, xcm.local_addr) in every state: EACCES afterwards, nothing changed"),
}
for op, (props, d) in BT.items():
    ob("btcp." + op.lower(), "btcp/btcp.c", ["-DOP_" + op], props, unwind=20, unwindset=["memcmp.0:50"], link=BTCP_LINK, desc=d)
# what each stored-value getter must report (C11); getters of kernel statistics (tcp.rtt ...) have no stored value
BTCP_SEM = {"get_scope_attr": ["-DSEM_T=int64_t", "-DSEM_V=BTS->scope", "-DSEM_HAS=(BTS->scope>=0)", "-DSEM_ANYTYPE"],
            "get_keepalive_attr": ["-DSEM_T=bool", "-DSEM_V=BTS->conn.tcp_opts.keepalive", "-DSEM_HAS=1"],
            "get_keepalive_time_attr": ["-DSEM_T=int64_t", "-DSEM_V=BTS->conn.tcp_opts.keepalive_time", "-DSEM_HAS=1"],
            "get_keepalive_interval_attr": ["-DSEM_T=int64_t", "-DSEM_V=BTS->conn.tcp_opts.keepalive_interval", "-DSEM_HAS=1"],
            "get_keepalive_count_attr": ["-DSEM_T=int64_t", "-DSEM_V=BTS->conn.tcp_opts.keepalive_count", "-DSEM_HAS=1"],
            "get_user_timeout_attr": ["-DSEM_T=int64_t", "-DSEM_V=BTS->conn.tcp_opts.user_timeout", "-DSEM_HAS=1"],
            "get_tcp_connect_timeout_attr": ["-DSEM_T=double", "-DSEM_V=BTS->conn.tcp_connect_timeout", "-DSEM_HAS=(BTS->conn.tcp_connect_timeout>=0)"],
            "get_dns_timeout_attr": ["-DSEM_T=double", "-DSEM_V=BTS->conn.dns_opts.timeout", "-DSEM_HAS=(!BTS->conn.dns_opts.timeout_disabled)"],
            "get_dns_algorithm_attr": ["-DSEM_STR=tconnect_algorithm_str(BTS->conn.dns_algorithm)", "-DSEM_HAS=(BTS->conn.dns_algorithm!=tconnect_algorithm_none)"]}
for (g, sfn, t) in extract_attrs("libxcm/tp/tcp/xcm_tp_btcp.c"):
    ob("btcp.getter." + g, "btcp/btcp.c", ["-DOP_GETTER", "-DGETTER=" + g, "-DGSIZE=%d" % GSIZE.get(t, 0)] + BTCP_SEM.get(g, []), ["C10"] + (["C11"] if g in BTCP_SEM else []), unwind=30, unwindset=["memcmp.0:50"], link=BTCP_LINK,
       desc="real getter %s (%s) from any socket state, every capacity the attribute tree can pass: never writes past capacity, length exact" % (g, t))
for op, d in (("CONNECT", "btcp_connect (address parse, tconnect_create, xcm_dns_resolve, connect start, first establishment step each failing at will; remote by name or number)"),
              ("SERVER", "btcp_server (parse, synchronous resolution, socket, DSCP/REUSEADDR setsockopt, getsockname, scope, bind, listen each failing at will)"),
              ("ACCEPT", "btcp_accept (creation-only attributes refused, accept4 EAGAIN/EMFILE, option setsockopts failing)")):
    ob("btcp.life_" + op.lower(), "btcp/life.c", ["-DOP_LIFE_" + op], ["C08", "C05", "C13", "C04", "C11"], unwind=10, link=BTCP_LINK,
       desc="btcp_init -> " + d + " -> btcp_close | btcp_cleanup over a KERNEL-FD ghost table: every descriptor closed exactly once, no foreign descriptor touched, registrations/bell/tconnect/query released, cleanup leaves the shared epoll set alone; SOCK_NONBLOCK everywhere")
_btcp_assumptions = [
    "btcp over KERNEL-STREAM stubs: send/recv return 1..len, 0 (recv), or -1 with EAGAIN/EPIPE/ECONNRESET/ETIMEDOUT/EHOSTUNREACH/ENETUNREACH/ECONNREFUSED at the solver's choice; setsockopt may fail at every call",
    "XPOLL, DNS and TCONNECT contract mocks (the TCONNECT contract 'the fd handed over has the snapshot options in force' is what the tconnect obligations assert)",
    "receive capacity >= 1",
]
for p in ("C02", "C06", "C17", "C11", "C04", "C16"):
    PROPERTY_META.setdefault(p, {"assumptions": [], "trusted_base": []})
    PROPERTY_META[p].setdefault("assumptions", [])
    PROPERTY_META[p]["assumptions"] += _btcp_assumptions

# --------------------------------------------------------------------------
# ux / uxf: xcm_tp_ux.c over KERNEL-SEQPACKET and the KERNEL-FD ghost table
# --------------------------------------------------------------------------
UX = {
    "SEND": (["C01", "C03", "C05", "C06", "C17"], "ux_send: size checks first, one send(MSG_EOR|MSG_NOSIGNAL), all-or-nothing, counters move iff accepted"),
    "RECV": (["C01", "C06", "C17"], "ux_receive: one recv(MSG_TRUNC), returns min(record, capacity), to_app counts the delivered bytes"),
    "UPDATE": (["C04", "C16"], "ux_update: epoll mask = map(awaited condition) for connections and servers"),
    "LIFE_SERVER": (["C08", "C05", "C04"], "ux_init -> ux_server with socket/setsockopt/bind/listen failing at will -> (close | cleanup): every descriptor closed exactly once, registrations deleted, socket file unlinked iff owner"),
    "LIFE_CONNECT": (["C08", "C05", "C04"], "ux_init -> ux_connect with every system call failing at will -> (close | cleanup)"),
    "LIFE_ACCEPT": (["C08", "C05", "C04"], "ux_accept with accept failing at will, then close of the accepted connection"),
    "ADDR": (["C10"], "xcm.local_addr / xcm.remote_addr retrieval for any name length and bytes the kernel may report (sockaddr_un up to 110 bytes)"),
}
for op, (props, d) in UX.items():
    for fl, nm in (([], "ux"), (["-DUXF"], "uxf")):
        ob("%s.%s" % (nm, op.lower()), "ux/ux.c", ["-DOP_" + op] + fl, props, unwind=112, desc=d + " (%s)" % nm)
for p in ("C01", "C03", "C08", "C17"):
    PROPERTY_META.setdefault(p, {"assumptions": [], "trusted_base": []})
    PROPERTY_META[p].setdefault("assumptions", [])
    PROPERTY_META[p]["assumptions"] += ["ux/uxf over KERNEL-SEQPACKET (send with MSG_EOR is all-or-nothing; recv with MSG_TRUNC returns the real record length) and a KERNEL-FD ghost table in which socket/setsockopt/bind/listen/connect/accept fail at the solver's choice"]

# --------------------------------------------------------------------------
# L4 dispatch layer: xcm_tp.c over a mock ops table and a mock control interface
# --------------------------------------------------------------------------
ob("tp.dispatch", "tp/tp.c", ["-DOP_DISPATCH"], ["C04", "C14", "C06"], unwind=14,
   desc="xcm_tp_socket_send/receive/finish/connect/server/accept over a mock transport with any result: result and errno passed through, update follows every operation (auto-update), <= 1 control round, none on failed connections")
ob("tp.life", "tp/tp.c", ["-DOP_LIFE"], ["C08", "C14"], unwind=14, desc="xcm_tp_socket_close/cleanup: control interface destroyed with the same ownership before the transport")
ob("tp.service", "tp/tp.c", ["-DOP_SERVICE"], ["C11"], unwind=14, desc="xcm.service accepts exactly 'any' and the actual service for all 11-char strings; xcm.blocking = xcm_set_blocking")
for (g, sfn, t) in extract_attrs("libxcm/tp/common/xcm_tp.c"):
    ob("tp.getter." + g, "tp/tp.c", ["-DOP_GETTER", "-DGETTER=" + g, "-DGSIZE=%d" % GSIZE.get(t, 0)] + (["-DMSG_CONN_ONLY"] if ("max_msg" in g or "_msgs" in g) else []), ["C10"] + (["C17"] if "_bytes" in g or "_msgs" in g else []), unwind=20,
       desc="real common getter %s (%s), any socket kind, mock transport strings of 0..6 chars (or NULL), every capacity" % (g, t))

# --------------------------------------------------------------------------
# btls: xcm_tp_btls.c data path, readiness and verification gate over OPENSSL contract stubs
# --------------------------------------------------------------------------
BTLS = {
    "SEND": (["C02", "C05", "C06", "C07", "C09", "C17"], "btls_send from any connection state: handshake outcome x OpenSSL verdicts (WANT_READ/WRITE, ZERO_RETURN, SSL, SYSCALL+errno, error queue): one SSL_write with the caller's arguments only when established and the peer passed the policy, result mapping, counters"),
    "RECV": (["C02", "C05", "C06", "C07", "C09", "C17"], "btls_receive, same space"),
    "FINISH": (["C04", "C06", "C09", "C16"], "btls_finish: succeeds only when established and verified; does not disturb the recorded OpenSSL wants"),
    "UPDATE": (["C04", "C16"], "btls_update against the relational wake-up/quiet specification for every (state, awaited condition, ssl_condition, ssl_wants, SSL_has_pending)"),
    "BIO": (["C02", "C04", "C06"], "bio_btcp_read/write/ctrl: result passed through, retry flags iff EAGAIN, EOF flag"),
}
for op, (props, d) in BTLS.items():
    ob("btls." + op.lower(), "btls/btls.c", ["-DOP_" + op], props, unwind=10, desc=d)
_openssl = ["OPENSSL contract stubs: SSL_connect/accept/read/write return >0, or <=0 with SSL_get_error in {WANT_READ, WANT_WRITE, ZERO_RETURN, SSL, SYSCALL(+errno in {0, EPIPE, ECONNRESET, ETIMEDOUT, EHOSTUNREACH, ENETUNREACH, EINPROGRESS})}, error queue empty or not, SSL_has_pending arbitrary, peer certificate present or not, verify result OK or any error - all at the solver's choice",
            "what OpenSSL itself does with certificates, records and the wire is outside the claim (C09: XCM's half only)"]
for p in ("C02", "C06", "C07", "C09", "C16", "C04"):
    PROPERTY_META.setdefault(p, {"assumptions": [], "trusted_base": []})
    PROPERTY_META[p].setdefault("assumptions", [])
    PROPERTY_META[p]["assumptions"] += _openssl

# --------------------------------------------------------------------------
# C13: tconnect.c (+ real ut_established) inductive steps; timer_mgr.c (TIMER contract)
# --------------------------------------------------------------------------
ob("tconnect.track_step", "tconnect/tconnect_h.c", ["-DOP_TRACK_STEP", "-DNIPS=3"], ["C13", "C05", "C06", "C08", "C04", "C11"], unwind=5,
   desc="one track_get_connected_fd() from an arbitrary valid track (state, address index, 3 addresses of any family mix, v4/v6/both sockets, with/without local address): order, at-most-once, errno of the last failure, timeouts, registrations and timers; kernel outcome per attempt symbolic")
ob("tconnect.track_step.n4", "tconnect/tconnect_h.c", ["-DOP_TRACK_STEP", "-DNIPS=4"], ["C13", "C05", "C06", "C08", "C04", "C11"], unwind=6, tier="thorough", timeout=2400,
   desc="same with 4 addresses")
ob("tconnect.track_step.failopts", "tconnect/tconnect_h.c", ["-DOP_TRACK_STEP", "-DNIPS=2", "-DFAIL_OPTS", "-DFAIL_BIND"], ["C13", "C11"], unwind=4, tier="thorough", timeout=2400,
   desc="track step with failing setsockopt/bind (2 addresses: the three recursive call sites make symbolic execution exponential in the list length)")
ob("tconnect.get_fd", "tconnect/tconnect_h.c", ["-DOP_GET_FD", "-DNIPS=3"], ["C13", "C08"], unwind=5,
   desc="tconnect_get_connected_fd over one or two arbitrary tracks: first connected wins and is disowned, EAGAIN while any track is in progress, else the last errno")
for alg, an in ((1, "single"), (2, "sequential"), (3, "happy_eyeballs")):
    ob("tconnect.connect." + an, "tconnect/tconnect_h.c", ["-DOP_CONNECT", "-DALG=%d" % alg, "-DNIPS=3"], ["C13", "C11"], unwind=5,
       desc="tconnect_connect with algorithm '%s' on 3 addresses of any family mix: track layout, IPv4 head-start delay, list order kept, local address copied and used by attempts made after the call returned" % an)
ob("tconnect.create", "tconnect/tconnect_h.c", ["-DOP_CREATE"], ["C08", "C05"], unwind=5, desc="tconnect_create/destroy with socket() and timerfd_create() failing at will: NULL and nothing leaked; both sockets closed once")
ob("tconnect.destroy", "tconnect/tconnect_h.c", ["-DOP_DESTROY"], ["C08", "C04", "C13"], unwind=5, flags=["--memory-leak-check"],
   desc="tconnect_destroy as owner (xcm_close) and as non-owner (xcm_cleanup in a forked child) from an arbitrary tconnect in mid-connect (0..2 tracks: head-start delay, pending attempt with registration and connect timer, failed): sockets closed once, everything freed, and the non-owner touches neither the shared epoll set nor any timer (the timerfd is shared with the owner)")
for op, d in (("SCHEDULE", "timer_mgr_schedule from an arbitrary manager of <= 3 timers: timerfd armed at the earliest expiry"),
              ("CANCEL", "timer_mgr_cancel/ack: exactly that timer removed, timerfd re-armed at the earliest remaining expiry or disarmed"),
              ("EXPIRED", "timer_mgr_has_expired <=> now > expiry"), ("LIFE", "timer_mgr_create/destroy with timerfd_create failing at will")):
    ob("timer." + op.lower(), "timer/timer_h.c", ["-DOP_" + op], ["C13", "C04"] + (["C08"] if op == "LIFE" else []) + (["C16"] if op == "CANCEL" else []), unwind=6,
       flags=(["--memory-leak-check"] if op == "LIFE" else []), desc=d)
PROPERTY_META.setdefault("C13", {"assumptions": [], "trusted_base": []})
PROPERTY_META["C13"]["assumptions"] = PROPERTY_META["C13"].get("assumptions", []) + [
    "tconnect over KERNEL-FD stubs (connect: success / EINPROGRESS / ECONNREFUSED, ETIMEDOUT, EHOSTUNREACH, ENETUNREACH...; poll+SO_ERROR decide a pending attempt), XPOLL and TIMER contract mocks; a timer scheduled in the step under test has not expired yet",
    "setsockopt/bind failures only in the 2-address obligation (recursion with three call sites is exponential for CBMC)",
    "timer_mgr over a clock stub (any non-negative time) and a timerfd stub; the double->timespec conversion (libm) is outside the claim",
    "real-time bounds are reduced to 'a live timer of the configured length guards every pending attempt'"]

# --------------------------------------------------------------------------
# C14: ctl.c over attribute-layer / kernel / xpoll mocks, protocol constants scaled
# --------------------------------------------------------------------------
CTL_SC = [("common/ctl_proto.h", "CTL_PROTO_MAX_ATTRS", 3), ("common/ctl_proto.h", "CTL_ATTR_VALUE_MAX", 8), ("common/xcm_attr_limits.h", "XCM_ATTR_NAME_MAX", 8)]
for op, props, d in (("REQ", ["C14"], "client_receive: the request datagram is ARBITRARY bytes (unterminated name, any type, any size), the attribute layer returns anything it may (more attributes than fit, names and values longer than their fields, tls.key set): no overflow, no abort, reply type/length/bytes, tls.key in no byte of the reply"),
                     ("PROCESS", ["C14", "C08", "C05", "C16"], "ctl_process with no session open: errno preserved, at most one accept (rounds with sessions: ctl.client/ctl.remove/ctl.accept; the recursion of ctl_process over an array of sessions is out of CBMC's reach: 1.3M SSA steps, > 12 GB): <= 2 sessions, listen socket masked at the limit, errno preserved, only session descriptors closed"),
                     ("ACCEPT", ["C14", "C05", "C16"], "accept_client with 0..1 sessions into a slot holding stale data: non-blocking session, no reply pending, listen socket masked at the limit"),
                     ("CLIENT", ["C14", "C05"], "process_client on one session: pending reply sent whole / kept on EAGAIN / session ended on error"),
                     ("REMOVE", ["C14", "C08"], "remove_client from 1..2 sessions: the survivor keeps descriptor and pending reply, listen socket unmasked"),
                     ("DESTROY", ["C08", "C14"], "ctl_destroy as owner (close) and as non-owner (cleanup in a forked child)"),
                     ("CREATE", ["C08", "C14", "C05"], "ctl_create with stat/socket/bind/listen failing at will: silent, nothing left behind")):
    ob("ctl." + op.lower(), "ctl/ctl_h.c", ["-DOP_" + op], props, unwind=5, scaled=CTL_SC,
       unwindset=["build_ctl.0:130", "build_ctl.1:130", "recv.0:130", "contains_secret.0:130", "xcm_attr_get_all.0:18", "xcm_attr_get_all.1:18", "xcm_attr_get_all.2:18", "xcm_attr_get.0:10", "xcm_attr_get.1:10",
                  "main.0:10", "main.1:10", "main.2:10", "main.3:10", "strlen.0:14", "strcpy.0:14", "strcmp.0:10", "memcmp.0:10", "memcpy.0:18"], desc=d + " [scaled twin: CTL_PROTO_MAX_ATTRS 64->3, CTL_ATTR_VALUE_MAX 512->8, XCM_ATTR_NAME_MAX 64->8]")
for _n in (-1, 3, 93, 96, 100, 107, 108, 115):
    ob("ctl.create_path.%s" % ("unset" if _n < 0 else "n%d" % _n), "ctl/ctl_h.c", ["-DOP_CREATE_PATH", "-DENVLEN=%d" % _n], ["C08", "C14"], unwind=130, scaled=CTL_SC, inc=["common"],
       tier=("quick" if _n in (-1, 93, 100, 108) else "thorough"),
       desc="ctl_create over the REAL common_ctl.c (ctl_get_dir, ctl_derive_path) with XCM_CTL %s, any pid and socket id < 100000: no abort, the control socket is bound to the complete path <dir>/ctl-<pid>-<id> if that fits sockaddr_un and is not created otherwise" % ("unset" if _n < 0 else "naming a directory of %d characters" % _n))
PROPERTY_META["C14"] = {"assumptions": ["ctl.c over mocks of xcm_attr_get/xcm_attr_get_all that may return anything the attribute layer can (C10 decides what that layer guarantees)",
                                        "protocol constants scaled (see obligation descriptions): the claim is for the same source text with smaller tables; the driver checks each substitution hits exactly one #define",
                                        "kernel stubs: recv returns a full-size datagram of arbitrary bytes, a short one, 0, EAGAIN or an error; send all / EAGAIN / EPIPE"],
                        "trusted_base": [], "bounds": "<= 2 sessions, one event per step, scaled tables", "outside": "the xcmctl tool's own parsing; real table sizes"}

# --------------------------------------------------------------------------
# xpoll.c over the EPOLL ghost set (C04, C16, C08)
# --------------------------------------------------------------------------
XP = {"FD_ADD": "xpoll_fd_reg_add", "FD_MOD": "xpoll_fd_reg_mod", "FD_DEL": "xpoll_fd_reg_del", "BELL_ADD": "xpoll_bell_reg_add", "BELL_MOD": "xpoll_bell_reg_mod", "BELL_DEL": "xpoll_bell_reg_del"}
for op, fn in XP.items():
    ob("xpoll." + op.lower(), "xpoll/xpoll_h.c", ["-DOP_" + op], ["C04", "C16", "C08"], unwind=34, unwindset=["ut_realloc.0:116"],
       desc=fn + " from an arbitrary valid xpoll (tables of capacity <= 6, one growth step inside the bound): the kernel interest set mirrors the registrations, the shared eventfd is watched exactly while a bell rings, xcm_fd never changes")
ob("xpoll.life", "xpoll/xpoll_h.c", ["-DOP_LIFE"], ["C08", "C16"], unwind=34, desc="xpoll_create with epoll_create1 failing at will; xpoll_destroy closes the epoll descriptor once and gives back a still-held eventfd reference (xcm_cleanup path)")

# --------------------------------------------------------------------------
# C15: lock discipline of the mutex-protected process-wide state (poisoning stubs)
# --------------------------------------------------------------------------
ob("locks.active_fd.get", "locks/afd_h.c", ["-DOP_GET"], ["C15", "C08", "C04"], unwind=6,
   desc="active_fd_get from an arbitrary pool of <= 2 eventfds (1..100 users each): the shared list is only touched while the mutex is held (poisoned outside), lock/unlock balance on every path, INV re-established at unlock; sharing up to 100 users, then a new eventfd")
ob("locks.active_fd.put", "locks/afd_h.c", ["-DOP_PUT"], ["C15", "C08"], unwind=6,
   desc="active_fd_put: same discipline; the eventfd is closed exactly when its last user lets go")
ob("locks.sock_id", "tp/tp.c", ["-DOP_SOCKID"], ["C15"], unwind=6, desc="get_next_sock_id: distinct ids, counter touched only inside its critical section")
PROPERTY_META["C15"] = {
    "level": "other",
    "level_text": "Lock discipline only: sequential bounded model checking (CBMC) of the real active_fd.c / xcm_tp.c:get_next_sock_id / ctx_store.c with poisoning mutex stubs proves that the mutex-protected process-wide structures are accessed only inside balanced critical sections and that their invariant holds at every unlock (lockset argument => no data race on them). True interleavings, the __atomic flags, __thread buffers and OpenSSL/c-ares initialisation are NOT decided (CBMC 6.11 aborts on this code with threads; goto-instrument --race-check crashes), see DESIGN.md.",
    "explanation": "sequential CBMC runs with poisoning mutex stubs over the real code; covers the three mutex-protected global structures; does not explore thread interleavings",
    "technique": "solver-based bounded symbolic execution (CBMC) with lock-poisoning stubs (lockset discipline); no interleaving exploration",
    "assumptions": ["lockset argument: state that is only accessed while its mutex is held, with the invariant re-established at each unlock, is race-free", "pthread_mutex_lock/unlock are the only synchronisation on these structures"],
    "trusted_base": []}

# --------------------------------------------------------------------------
# C18: ctx_store.c + item.c over OPENSSL digest/PEM/SSL_CTX stubs and a file-system stub
# --------------------------------------------------------------------------
CS_US = ["EVP_DigestUpdate.0:18", "EVP_DigestFinal_ex.0:154", "EVP_DigestFinal_ex.1:154", "EVP_DigestFinal_ex.2:154", "EVP_DigestFinal_ex.3:154", "EVP_DigestFinal_ex.4:154",
         "memcmp.0:34", "memcpy.0:34", "memset.0:34", "strlen.0:6", "vsnprintf.0:40", "vsnprintf.1:40"]
ob("ctxstore.key.values", "ctxstore/ctx_h.c", ["-DOP_KEY"], ["C18"], unwind=8, unwindset=CS_US,
   desc="cache key injectivity: two arbitrary designations of four items (absent / by value, 1-2 chars) share a key iff they are the same designation (digest modelled as its byte transcript)")
ob("ctxstore.key.file", "ctxstore/ctx_h.c", ["-DOP_KEY", "-DKEY_FILE", "-DNO_LINK", "-DTMAX=100"], ["C18", "C09"], unwind=8, unwindset=CS_US, timeout=900,
   desc="cache key: an item by file (two paths, arbitrary stat tuples) versus by value: same key iff same designation")
ob("ctxstore.key.file.symlink", "ctxstore/ctx_h.c", ["-DOP_KEY", "-DKEY_FILE", "-DTMAX=150"], ["C18"], unwind=8, unwindset=CS_US, timeout=3000, tier="thorough", mem_gb=30,
   desc="cache key: as ctxstore.key.file, the path may be a symbolic link (link and target are both part of the key)")
ob("ctxstore.key.change", "ctxstore/ctx_h.c", ["-DOP_KEY_CHANGE", "-DTMAX=150"], ["C18", "C09"], unwind=8, unwindset=CS_US, timeout=900,
   desc="the same by-file designation in two file-system states (path possibly a symbolic link): key changes iff the file or the link's target changed")
ob("ctxstore.get", "ctxstore/ctx_h.c", ["-DOP_GET", "-DABSTRACT_DIGEST"], ["C18", "C08", "C15"], unwind=8, unwindset=CS_US,
   desc="ctx_store_get_ctx from a cache with/without a matching entry: hit only for the identical designation, use counts, re-read loop when a file changes during loading, every loader (PEM certificate/key/bundle/CRL, key match) failing at will -> EPROTO and nothing cached or leaked; lock released on every path")
ob("ctxstore.put", "ctxstore/ctx_h.c", ["-DOP_PUT"], ["C18", "C08", "C15"], unwind=8, unwindset=CS_US, desc="ctx_store_put: the context is freed exactly when its last user lets go")
PROPERTY_META["C18"] = {"assumptions": ["OPENSSL digest contract: digest equal <=> byte transcript of the EVP_DigestUpdate calls equal (the harness records the transcript)",
                                        "file system stub: a path has a stat tuple (dev, ino, size, mtime) that may change between two looks; equal tuple = unchanged file is the cache's own design assumption",
                                        "PEM/X509/SSL_CTX loaders are stubs that succeed or fail at the solver's choice; a PEM bundle is n good entries followed by a clean end or a damaged entry"],
                        "trusted_base": [], "bounds": "item strings of 1-2 characters, two paths, cache of <= 2 entries", "outside": "PEM parsing itself; real file-system update sequences (rename/symlink flips) beyond the stat-tuple abstraction; NOW/namespace file naming (get_file)"}

# --------------------------------------------------------------------------
# C09: how XCM configures OpenSSL (ghost configuration), consistency rules, inheritance
# --------------------------------------------------------------------------
CONF = {"VERIFY": (["C09"], "set_verify for all 2^4 (role, auth, check_crl, check_time) and any pre-set flags: mode and X509 flags exactly as the policy says"),
        "HOSTNAME": (["C09"], "enable_hostname_validation: exact-match host flags (no wildcards), the host list handed to OpenSSL = the configured names; EINVAL without auth or names"),
        "FINALIZE": (["C09", "C18"], "finalize_tls_conf over every combination of flags, designated items and explicit-set marks: exactly the inconsistent combinations are refused with EINVAL; defaults derived from environment/namespace once, now, only for undesignated items"),
        "INHERIT": (["C09", "C11", "C18"], "inherit_tls_conf: all five policy switches, the expected names and the four credential items of the server socket are taken over by an accepted connection")}
for op, (props, d) in CONF.items():
    ob("tlsconf." + op.lower(), "btls/conf.c", ["-DOP_" + op], props, unwind=10, unwindset=["memset.0:1400", "ut_calloc.0:18", "ut_realloc.0:34"], desc=d)

for tu, tudef in (("tcp", []), ("tls", ["-DTU_TLS"])):
    for op in ("CONNECT", "SERVER", "ACCEPT"):
        ob("frame.%s.life_%s" % (tu, op.lower()), "frame/life.c", tudef + ["-DOP_LIFE_" + op], ["C08", "C04", "C05", "C16"], unwind=12, flags=["--memory-leak-check"],
           desc="%s_init (sub-socket create/init failing), %s_%s with address conversion or the byte-stream sub-socket's operation failing, then close|cleanup: sub-socket closed at most once and destroyed exactly once (typestate contract), frame buffers freed (leak check)" % (tu, tu, op.lower()))

for op in ("CONNECT", "SERVER", "ACCEPT"):
    ob("core.life_%s" % op.lower(), "core/life.c", ["-DOP_LIFE_" + op], ["C08", "C05", "C04", "C11"], unwind=14,
       desc="xcm_%s_a then xcm_close|xcm_cleanup over a typestate transport mock: epoll_create1 failure, refused creation-time attribute, transport failure, blocking finish refused or interrupted by a signal, blocking accept retried after EAGAIN: every socket object destroyed once, transport closed at most once and never after its own failure, xpoll and attribute trees released; non-blocking sockets never wait" % op.lower())

_btls_getters = extract_attrs("libxcm/tp/tls/xcm_tp_btls.c") + [(g, None, "xcm_attr_type_str") for g in ("get_san_dns_attr", "get_san_email_attr", "get_san_dir_cn_attr")]
for (g, sfn, t) in _btls_getters:
    ob("btls.getter." + g, "btls/getters.c", ["-DGETTER=" + g, "-DGSIZE=%d" % GSIZE.get(t, 0)] + (["-DIS_STR"] if t == "xcm_attr_type_str" else []) + (["-DCTX_INDEX"] if g.startswith("get_san_") else []),
       ["C10", "C08"], unwind=20, unwindset=["memset.0:1400", "ut_calloc.0:18", "ut_realloc.0:34"], link=BTCP_LINK,
       desc="real BTLS getter %s (%s): any socket kind and connection state (SSL object absent before connect), credential items designated by file or by value, peer certificate absent/present with names, CN, SAN entries and key id of any length <= the bound or missing, every capacity: never writes past capacity, length exact, EOVERFLOW/ENOENT, certificate reference released" % (g, t))

_ITEM = {"cert": 0, "key": 1, "tc": 2, "crl": 3}
_FLAG = {"set_auth_attr": 0, "set_check_crl_attr": 1, "set_check_time_attr": 2, "set_verify_peer_name_attr": 3, "set_client_attr": 4}
for (g, sfn, t) in extract_attrs("libxcm/tp/tls/xcm_tp_btls.c"):
    if sfn is None:
        continue
    kind = {"xcm_attr_type_bool": 0, "xcm_attr_type_str": 1, "xcm_attr_type_bin": 2}[t]
    item = -1
    for k, i in _ITEM.items():
        if sfn in ("set_%s_file_attr" % k, "set_%s_attr" % k):
            item = i
    names = sfn == "set_peer_names_attr"
    variants = [("", [])]
    if names:
        # slist_split + validation over a symbolic string is out of reach (82 M clauses at 4 characters): one concrete value per obligation,
        # the socket state and the previously configured names stay symbolic
        variants = [("." + nm, ["-DIS_NAMES", "-DVMAX=5", "-DVAL=\"%s\"" % v] + (["-DVAL_BAD"] if bad else [])) for nm, v, bad in
                    (("empty", "", False), ("one", "a", False), ("two", "a:b", False), ("bad", "!", True), ("good_bad", "a:!", True), ("empty_name", "a::b", True))]
    for vn, vfl in variants:
        ob("btls.setter." + sfn + vn, "btls/setters.c", ["-DSETTER=" + sfn, "-DGETTER=" + g, "-DKIND=%d" % kind, "-DITEM_IDX=%d" % item, "-DFLAG_IDX=%d" % _FLAG.get(sfn, -1), "-DIS_NAMES_B=%s" % ("true" if names else "false")] + vfl,
           ["C10", "C11"] + (["C18"] if item >= 0 else ["C09"]), unwind=(12 if names else 20), unwindset=["memset.0:1400", "ut_calloc.0:18", "ut_realloc.0:34"], link=BTCP_LINK,
           desc="real BTLS setter %s from any socket kind/state with %s: refused => EACCES/EINVAL and nothing changed; accepted => reported by %s, other attributes untouched" % (sfn, ("the value " + repr(vfl[2][6:-1])) if names else "any value of its type (7 characters over {NUL,a,b,:,!})", g))

BLIFE = {"CONNECT": (["C08", "C02", "C03", "C09", "C05", "C06", "C18", "C04"], "btls_init, btls_connect with policy/address/context/SSL_new/BTCP-connect/hostname failures and any outcome of the first handshake step, then close|cleanup"),
         "ACCEPT": (["C08", "C02", "C03", "C09", "C05", "C06", "C18", "C04"], "btls_accept from a serving socket (inherited policy) with BTCP-accept/policy/context/SSL_new/hostname failures and any first handshake outcome, then close|cleanup"),
         "SERVER": (["C08", "C18", "C04"], "btls_server with address/policy/context/bind failures, then close|cleanup")}
for op, (props, d) in BLIFE.items():
    ob("btls.life_" + op.lower(), "btls/life.c", ["-DOP_LIFE_" + op], props, unwind=10, unwindset=["memset.0:1400", "ut_calloc.0:18", "ut_realloc.0:34"],
       desc=d + ": BTCP sub-socket closed/destroyed exactly once (typestate), SSL object + BIO freed, SSL_CTX reference given back, bell registration deleted (owner only); verification mode, CRL/time flags, expected names, BIO and SSL_MODE_ENABLE_PARTIAL_WRITE in place before the handshake starts")

# --------------------------------------------------------------------------
# C20: xcmrelay (xrelay.c, rserver.c) over an XCM-API contract mock and a libevent mock
# --------------------------------------------------------------------------
RL_INC = ["tools/xcmrelay", "tools/common"]
RL_FP = ["xfwd_handle_term.function_pointer_call.1/err_cb", "xfwd_handle_err.function_pointer_call.1/err_cb"]
RL_SC = [("tools/xcmrelay/xrelay.h", r"re:^(\s*char data\[)(65535)\];", 16), ("tools/xcmrelay/xrelay.c", None, None)]
for v, vn in (([], "messaging"), (["-DBYTESTREAM"], "bytestream")):
    ob("relay.fire." + vn, "relay/relay_h.c", ["-DOP_FIRE", "-DUT_STD_ASSERT"] + v, ["C20"], unwind=10, inc=RL_INC, scaled=RL_SC, restrict_fp=RL_FP,
       desc="one xfwd_active firing (either descriptor) from an arbitrary valid forwarder state, %s legs: held data offered unmodified and whole, partial acceptance keeps the tail in order, refused sends keep the data, each direction touches only its own condition bits, one XCM call per firing on the socket that fired [scaled twin: data[65535] -> data[16]]" % vn)
ob("relay.fire.messaging.realsize", "relay/relay_h.c", ["-DOP_FIRE", "-DUT_STD_ASSERT"], ["C20"], unwind=10, inc=RL_INC, tier="thorough", timeout=2400, restrict_fp=RL_FP,
   desc="the same with the real 65535-byte buffer")
ob("relay.start", "relay/relay_h.c", ["-DOP_START", "-DUT_STD_ASSERT"], ["C20"], unwind=10, inc=RL_INC, scaled=RL_SC, desc="xfwd_start: both legs non-blocking, both descriptors watched for readability, interest invariant established")
RS_SC = RL_SC + [("tools/xcmrelay/rserver.c", None, None)]
RS_FP = ["xfwd_handle_term.function_pointer_call.1/xrelay_fwd_term", "xfwd_handle_err.function_pointer_call.1/xrelay_fwd_term", "xrelay_fwd_term.function_pointer_call.1/rserver_terminate_relay"]
ob("relay.accept", "relay/relay_h.c", ["-DOP_ACCEPT", "-DUT_STD_ASSERT"], ["C20"], unwind=10, unwindset=["strcmp.0:16"], inc=RL_INC, scaled=RS_SC, restrict_fp=RS_FP,
   desc="rserver_create + rserver_accept: server socket and onward connection are non-blocking; failure to reach the target closes the accepted client only")
ob("relay.term", "relay/relay_h.c", ["-DOP_TERM", "-DUT_STD_ASSERT"], ["C20"], unwind=10, unwindset=["strcmp.0:16"], inc=RL_INC, scaled=RS_SC, restrict_fp=RS_FP,
   desc="termination of a pair when one side closes: teardown complete; close ordering with respect to data still buffered towards the other side")
PROPERTY_META["C20"] = {"assumptions": ["XCM-API contract mock per xcm.h: xcm_send accepts (0 / 1..len) or refuses (EAGAIN) or fails (EPIPE, ECONNRESET); xcm_receive returns one message, 0 or -1; the library below the API is what C01..C19 decide",
                                        "libevent mock (event_assign/add/del record their arguments)", "content tier: messages of <= 6 bytes; scaled twin: the forwarder's buffer is 16 bytes"],
                        "trusted_base": [], "bounds": "one callback firing from an arbitrary valid state", "outside": "libevent itself; main.c; several concurrent relays share nothing but the rserver list"}

# --------------------------------------------------------------------------
# utls: xcm_tp_utls.c over typestate mocks of its ux and tls sub-sockets
# --------------------------------------------------------------------------
UT = {"LIFE_SERVER": (["C08", "C04"], "utls_init -> utls_server with every sub-operation failing at will -> (close | cleanup): each sub-socket closed at most once, never after its own failed server(), never destroyed while open"),
      "LIFE_CONNECT": (["C08", "C01", "C04"], "utls_init -> utls_connect (UX first, TLS fallback on ECONNREFUSED) -> close: exactly one live leg, the other released at once"),
      "LIFE_ACCEPT": (["C08", "C01", "C04"], "utls_accept from a serving UTLS socket (UX leg first, then TLS) -> close | cleanup; the server's legs are untouched"),
      "DELEGATE": (["C01", "C03", "C04", "C16", "C17"], "send/receive/finish/counters/max_msg/update of a connected UTLS socket go to the one live leg, results passed through")}
for op, (props, d) in UT.items():
    ob("utls." + op.lower(), "utls/utls_h.c", ["-DOP_" + op], props, unwind=16, desc=d)

# --------------------------------------------------------------------------
# DNS: xcm_dns_cares.c over a CARES contract mock
# --------------------------------------------------------------------------
DN = {"SYNC": (["C13", "C04", "C08"], "xcm_dns_resolve_sync with the resolver answering (success with 1..3 addresses, NXDOMAIN, timeout) within two rounds, xpoll/timerfd creation failing at will: returns - ENOENT on failure -, everything released"),
      "PROCESS": (["C13", "C04", "C05", "C08", "C16"], "xcm_dns_resolve + one xcm_dns_query_process step + result + destroy: addresses in the resolver's order, failure/timeout -> ENOENT, c-ares sockets registered exactly while in progress, completed query arms an immediate wake-up"),
      "LIFE": (["C08"], "xcm_dns_resolve with timer manager / resolver configuration failing: NULL, nothing left behind")}
for op, (props, d) in DN.items():
    ob("dns." + op.lower(), "dns/dns_h.c", ["-DOP_" + op], props, unwind=18, unwindset=["xcm_dns_resolve_sync.0:5"], desc=d)
