"""Obligation table: which harness x configuration decides which property.

Each obligation: name, harness (relative to harness/), defs, unwind, unwindset,
props (property ids it serves), tier ('quick' = both tiers, 'thorough' = only
in the thorough tier), desc.  quick_only=True drops it from the thorough tier
(when a deeper twin replaces it)."""

OBLIGATIONS = []
PROPERTY_META = {}


def ob(name, harness, defs, props, tier="quick", unwind=8, unwindset=None, desc="", **kw):
    d = dict(name=name, harness=harness, defs=defs, props=props, tier=tier, unwind=unwind,
             unwindset=unwindset or [], desc=desc)
    d.update(kw)
    OBLIGATIONS.append(d)


# --------------------------------------------------------------------------
# framing layer: xcm_tp_tcp.c / xcm_tp_tls.c over the BYTESTREAM contract
# --------------------------------------------------------------------------
FRAME_PROPS = {
    "SEND": ["C01", "C03", "C06", "C07", "C17"],
    "RECV": ["C01", "C06", "C07", "C17"],
    "FINISH": ["C01", "C03", "C04", "C06", "C17"],
    "UPDATE": ["C04", "C16"],
    "INIT": ["C01", "C17"],
}
FRAME_DESC = {
    "SEND": "one %s_send from an arbitrary INV_frame state, any message, lower layer accepts any part / EAGAIN / hard error",
    "RECV": "one %s_receive from an arbitrary INV_frame state, arbitrary peer byte stream and fragmentation, any capacity",
    "FINISH": "one %s_finish from an arbitrary INV_frame state",
    "UPDATE": "one %s_update from an arbitrary INV_frame state and awaited condition",
    "INIT": "%s_init establishes INV_frame",
}
for tu, tudef in (("tcp", []), ("tls", ["-DTU_TLS"])):
    for op in ("SEND", "RECV", "FINISH", "UPDATE", "INIT"):
        ob("frame.%s.%s.content6" % (tu, op.lower()), "frame/frame.c", tudef + ["-DOP_" + op, "-DLMAX=6"], FRAME_PROPS[op],
           unwind=16, unwindset=["try_finish_send.0:5"], quick_only=(op in ("SEND", "RECV", "FINISH")),
           desc=(FRAME_DESC[op] % tu) + "; content tier, payload <= 6 bytes, <= 2 partial writes per flush")
    for op in ("SEND", "RECV", "FINISH"):
        ob("frame.%s.%s.content8" % (tu, op.lower()), "frame/frame.c", tudef + ["-DOP_" + op, "-DLMAX=8", "-DKMAX=3"], FRAME_PROPS[op],
           tier="thorough", unwind=18, unwindset=["try_finish_send.0:6"],
           desc=(FRAME_DESC[op] % tu) + "; content tier, payload <= 8 bytes, <= 3 partial writes per flush")

_frame_assumptions = [
    "BYTESTREAM contract of the lower socket (btcp/btls): send(len>0) accepts 1..len leading bytes or fails with EAGAIN or a hard errno; receive(cap>0) delivers 1..cap next stream bytes, 0 (EOF) or -1; after a hard error no further call succeeds",
    "content tier: payloads <= LMAX bytes with symbolic bytes; legal announced lengths LMAX+1..65535 are covered for positions/lengths only by the length tier",
    "heap objects of the two frame buffers have the fixed modelled size 4+LMAX (65539 in the length tier); the logical capacity (wire_capacity) is enforced by an explicit check on every modelled write",
    "logging disabled (run-time default), allocation never fails (upstream policy: abort on exhaustion)",
    "receive capacity >= 1",
]
for p in ("C01", "C03", "C06", "C07", "C17"):
    PROPERTY_META.setdefault(p, {"assumptions": [], "trusted_base": []})
    PROPERTY_META[p]["assumptions"] += _frame_assumptions

# --------------------------------------------------------------------------
# libxcm/core/xcm.c: blocking loops and non-blocking pass-through over a
# MESSAGING/BYTESTREAM contract mock and an interruptible poll() stub
# --------------------------------------------------------------------------
CORE = {
    "MSEND_B": (["C01", "C03", "C04", "C06"], "blocking xcm_send, messaging: same message on every retry, accepted at most once, -1/EINTR only before acceptance, returns after finish"),
    "BSEND_B": (["C02", "C03", "C04", "C06"], "blocking xcm_send, byte stream: retries continue after the accepted bytes, return value = bytes accepted, failure only if none"),
    "RECV_B": (["C01", "C02", "C04", "C06"], "blocking xcm_receive: awaits RECEIVABLE, passes buffer/capacity/result through, never EAGAIN"),
    "SETBLOCK": (["C04"], "xcm_set_blocking(true) finishes outstanding work first"),
    "NB": (["C05", "C04", "C16", "C01", "C02"], "every public data-path call on a non-blocking socket: exactly one transport call, no poll()"),
}
for op, (props, desc) in CORE.items():
    ob("core.%s" % op.lower(), "core/core.c", ["-DOP_" + op, "-DRMAX=2"], props, unwind=8, quick_only=True,
       desc=desc + "; transport answers EAGAIN <= 2 times and <= 2 partial writes, poll() may be interrupted at every call")
    ob("core.%s.r4" % op.lower(), "core/core.c", ["-DOP_" + op, "-DRMAX=4"], props, tier="thorough", unwind=12,
       desc=desc + "; transport answers EAGAIN <= 4 times and <= 4 partial writes, poll() may be interrupted at every call")
_core_assumptions = [
    "xcm.c over a contract mock of the transport (xcm_tp_socket_send/receive/finish/update): MESSAGING send = accepted once (0) or refused (-1 EAGAIN / hard errno); BYTESTREAM send = 1..len leading bytes or -1",
    "poll() stub: returns 1 (readable) or -1/EINTR at the solver's choice at every call; it is the only blocking primitive in xcm.c",
    "bounded liveness: the mock stops answering EAGAIN after RMAX rounds (unwinding assertions prove the loops then end)",
]
for p in ("C01", "C02", "C03", "C04", "C05"):
    PROPERTY_META.setdefault(p, {"assumptions": [], "trusted_base": []})
    PROPERTY_META[p]["assumptions"] += _core_assumptions
